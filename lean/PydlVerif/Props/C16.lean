/-
C16 property theorems: readspec returns each requested spectrum in request
order, unshifted; spec_append never overlaps, drops or moves data other than by
the requested pixel shift.  Helper lemmas first (sections "helpers"), property
theorems (listed in harness/props/c16.py) are marked PROPERTY.
Core Lean only.
-/
import PydlVerif.Model.SpecOrder
import PydlVerif.Lemmas.SpecFiles
namespace PydlVerif.C16
open PydlVerif PydlVerif.SpecOrder

/-! ## helpers: rows, padding -/

/-- cell (i, p) of a 2-d array (`z` outside) -/
def cell {α} (z : α) (s : Img α) (i p : Nat) : α := ((s.rows[i]?).getD [])[p]?.getD z

/-- every row has `npix` cells (a rectangular numpy array) -/
def Img.WF {α} (s : Img α) : Prop := ∀ r ∈ s.rows, r.length = s.npix

/-- a row right-padded with zeros to width `w`, nothing in front of it -/
def padTo {α} (z : α) (w : Nat) (r : List α) : List α := r ++ List.replicate (w - r.length) z

theorem place_zero {α} (z : α) (w : Nat) (r : List α) : place z w 0 r = padTo z w r := by
  simp [place, padTo]

theorem place_length {α} (z : α) (w nadd : Nat) (r : List α) (h : nadd + r.length ≤ w) :
    (place z w nadd r).length = w := by
  simp [place]; omega

theorem place_get {α} (z : α) (w nadd : Nat) (r : List α) (p : Nat) :
    (place z w nadd r)[p]?.getD z = if nadd ≤ p ∧ p < nadd + r.length then r[p - nadd]?.getD z else z := by
  unfold place
  by_cases h1 : p < nadd
  · have : ¬ (nadd ≤ p ∧ p < nadd + r.length) := by omega
    simp [List.getElem?_append, h1, this]
  · by_cases h2 : p < nadd + r.length
    · have h3 : nadd ≤ p ∧ p < nadd + r.length := by omega
      have h4 : p - nadd < r.length := by omega
      simp [List.getElem?_append, h1, h2, h3, h4]
    · have h3 : ¬ (nadd ≤ p ∧ p < nadd + r.length) := by omega
      have h4 : ¬ (p - nadd < r.length) := by omega
      simp only [List.getElem?_append, List.length_append, List.length_replicate, h2, if_false]
      simp [List.getElem?_replicate]
      split <;> simp

theorem padTo_length {α} (z : α) (w : Nat) (r : List α) : (padTo z w r).length = max w r.length := by
  simp [padTo]; omega

theorem padTo_padTo {α} (z : α) (w1 w2 : Nat) (r : List α) :
    padTo z w2 (padTo z w1 r) = padTo z (max w1 w2) r := by
  simp only [padTo, List.length_append, List.length_replicate, List.append_assoc,
    List.replicate_append_replicate]
  congr 2; omega

theorem padTo_of_length {α} (z : α) (w : Nat) (r : List α) (h : w ≤ r.length) : padTo z w r = r := by
  simp [padTo, Nat.sub_eq_zero_of_le h]

theorem padTo_get {α} (z : α) (w : Nat) (r : List α) (p : Nat) :
    (padTo z w r)[p]?.getD z = r[p]?.getD z := by
  rw [← place_zero, place_get]
  by_cases h : p < r.length
  · simp [h]
  · simp [h]

theorem nadd1_eq (ps : Int) : nadd1 ps = (-ps).toNat := by
  unfold nadd1
  by_cases h : ps = 0
  · simp [h]
  · by_cases h' : ps < 0 <;> simp [h, h'] <;> omega

theorem nadd2_eq (ps : Int) : nadd2 ps = ps.toNat := by
  unfold nadd2
  by_cases h : ps = 0
  · simp [h]
  · by_cases h' : ps < 0 <;> simp [h, h'] <;> omega

/-! ## PROPERTY: spec_append -/

/-- PROPERTY.  The result of `spec_append(spec1, spec2, pixshift)` is rectangular, has
`nrows1 + nrows2` rows and `max(npix1 + nadd1, npix2 + nadd2)` pixels (`nadd1 = |pixshift|`
for a negative shift, `nadd2 = pixshift` for a positive one); its first rows are the rows
of `spec1` moved right by exactly `nadd1`, the following ones the rows of `spec2` moved right
by exactly `nadd2`; every other cell is zero. -/
theorem specAppend_spec {α} (z : α) (s1 s2 : Img α) (ps : Int) (h1 : Img.WF s1) (h2 : Img.WF s2) :
    let r := specAppend z s1 s2 ps
    let a1 := (-ps).toNat
    let a2 := ps.toNat
    r.npix = max (s1.npix + a1) (s2.npix + a2) ∧ Img.WF r ∧
    r.rows.length = s1.rows.length + s2.rows.length ∧
    (∀ i p, i < s1.rows.length →
      cell z r i p = if a1 ≤ p ∧ p < a1 + s1.npix then cell z s1 i (p - a1) else z) ∧
    (∀ i p, i < s2.rows.length →
      cell z r (s1.rows.length + i) p = if a2 ≤ p ∧ p < a2 + s2.npix then cell z s2 i (p - a2) else z) := by
  intro r a1 a2
  have e1 : nadd1 ps = a1 := nadd1_eq ps
  have e2 : nadd2 ps = a2 := nadd2_eq ps
  refine ⟨?_, ?_, ?_, ?_, ?_⟩
  · simp [r, specAppend, e1, e2]
  · intro row hrow
    simp only [r, specAppend, List.mem_append, List.mem_map, e1, e2] at hrow ⊢
    rcases hrow with ⟨x, hx, rfl⟩ | ⟨x, hx, rfl⟩
    · apply place_length; rw [h1 x hx]; omega
    · apply place_length; rw [h2 x hx]; omega
  · simp [r, specAppend]
  · intro i p hi
    have hrow : r.rows[i]? = some (place z r.npix a1 s1.rows[i]) := by
      simp only [r, specAppend, e1, e2]
      rw [List.getElem?_append_left (by simpa using hi)]
      simp [hi]
    have hlen : (s1.rows[i]).length = s1.npix := h1 _ (List.getElem_mem hi)
    simp only [cell, hrow, Option.getD_some, place_get, hlen]
    simp [List.getElem?_eq_getElem hi]
  · intro i p hi
    have hrow : r.rows[s1.rows.length + i]? = some (place z r.npix a2 s2.rows[i]) := by
      simp [r, specAppend, e1, e2, hi]
    have hlen : (s2.rows[i]).length = s2.npix := h2 _ (List.getElem_mem hi)
    simp only [cell, hrow, Option.getD_some, place_get, hlen]
    simp [List.getElem?_eq_getElem hi]

/-- PROPERTY.  Nothing is dropped or overlaps: cell (i, q) of `spec1` is found at (i, q + nadd1),
cell (i, q) of `spec2` at (nrows1 + i, q + nadd2), both inside the result, and at most one of
the two shifts is non-zero. -/
theorem specAppend_nothing_dropped {α} (z : α) (s1 s2 : Img α) (ps : Int) (h1 : Img.WF s1) (h2 : Img.WF s2) :
    let r := specAppend z s1 s2 ps
    let a1 := (-ps).toNat
    let a2 := ps.toNat
    (a1 = 0 ∨ a2 = 0) ∧
    (∀ i q, i < s1.rows.length → q < s1.npix → q + a1 < r.npix ∧ cell z r i (q + a1) = cell z s1 i q) ∧
    (∀ i q, i < s2.rows.length → q < s2.npix →
      q + a2 < r.npix ∧ cell z r (s1.rows.length + i) (q + a2) = cell z s2 i q) := by
  intro r a1 a2
  obtain ⟨hn, _, _, hc1, hc2⟩ := specAppend_spec z s1 s2 ps h1 h2
  refine ⟨by omega, ?_, ?_⟩
  · intro i q hi hq
    refine ⟨by simp only [r] at *; omega, ?_⟩
    rw [hc1 i (q + (-ps).toNat) hi]
    have : (-ps).toNat ≤ q + (-ps).toNat ∧ q + (-ps).toNat < (-ps).toNat + s1.npix := by omega
    simp [this]
  · intro i q hi hq
    refine ⟨by simp only [r] at *; omega, ?_⟩
    rw [hc2 i (q + ps.toNat) hi]
    have : ps.toNat ≤ q + ps.toNat ∧ q + ps.toNat < ps.toNat + s2.npix := by omega
    simp [this]

/-- PROPERTY.  Negative shift `pixshift = -k`: spec1 is moved right by exactly k pixels, spec2 is not moved. -/
theorem specAppend_shift_neg {α} (z : α) (s1 s2 : Img α) (k : Nat) (h1 : Img.WF s1) (h2 : Img.WF s2) :
    let r := specAppend z s1 s2 (-(k : Int))
    r.npix = max (s1.npix + k) s2.npix ∧ Img.WF r ∧ r.rows.length = s1.rows.length + s2.rows.length ∧
    (∀ i p, i < s1.rows.length → cell z r i p = if k ≤ p ∧ p < k + s1.npix then cell z s1 i (p - k) else z) ∧
    (∀ i p, i < s2.rows.length → cell z r (s1.rows.length + i) p = if p < s2.npix then cell z s2 i p else z) := by
  have e1 : (- -(k : Int)).toNat = k := by omega
  have e2 : (-(k : Int)).toNat = 0 := by omega
  have := specAppend_spec z s1 s2 (-(k : Int)) h1 h2
  simp only [e1, e2, Nat.add_zero, Nat.zero_le, true_and, Nat.zero_add, Nat.sub_zero] at this
  exact this

/-- PROPERTY.  Positive shift `pixshift = k`: spec2 is moved right by exactly k pixels, spec1 is not moved. -/
theorem specAppend_shift_pos {α} (z : α) (s1 s2 : Img α) (k : Nat) (h1 : Img.WF s1) (h2 : Img.WF s2) :
    let r := specAppend z s1 s2 (k : Int)
    r.npix = max s1.npix (s2.npix + k) ∧ Img.WF r ∧ r.rows.length = s1.rows.length + s2.rows.length ∧
    (∀ i p, i < s1.rows.length → cell z r i p = if p < s1.npix then cell z s1 i p else z) ∧
    (∀ i p, i < s2.rows.length →
      cell z r (s1.rows.length + i) p = if k ≤ p ∧ p < k + s2.npix then cell z s2 i (p - k) else z) := by
  have e1 : (-(k : Int)).toNat = 0 := by omega
  have e2 : ((k : Int)).toNat = k := by omega
  have := specAppend_spec z s1 s2 (k : Int) h1 h2
  simp only [e1, e2, Nat.add_zero, Nat.zero_le, true_and, Nat.zero_add, Nat.sub_zero] at this
  exact this

/-- PROPERTY.  Empty blocks, as the code handles them (any shift): a block without rows contributes no row (but its
pixel count still enters the width `max(npix1 + nadd1, npix2 + nadd2)`), the other block is placed as usual; a block
without pixels contributes all-zero rows; two blocks without rows give an array without rows. -/
theorem specAppend_empty {α} (z : α) (s1 s2 : Img α) (ps : Int) (h1 : Img.WF s1) (h2 : Img.WF s2) :
    let r := specAppend z s1 s2 ps
    let a1 := (-ps).toNat
    let a2 := ps.toNat
    (s1.rows = [] → r.rows.length = s2.rows.length ∧ ∀ i p, i < s2.rows.length →
      cell z r i p = if a2 ≤ p ∧ p < a2 + s2.npix then cell z s2 i (p - a2) else z) ∧
    (s2.rows = [] → r.rows.length = s1.rows.length ∧ ∀ i p, i < s1.rows.length →
      cell z r i p = if a1 ≤ p ∧ p < a1 + s1.npix then cell z s1 i (p - a1) else z) ∧
    (s1.npix = 0 → ∀ i p, i < s1.rows.length → cell z r i p = z) ∧
    (s2.npix = 0 → ∀ i p, i < s2.rows.length → cell z r (s1.rows.length + i) p = z) ∧
    (s1.rows = [] → s2.rows = [] → r.rows = []) := by
  intro r a1 a2
  obtain ⟨_, _, hl, hc1, hc2⟩ := specAppend_spec z s1 s2 ps h1 h2
  refine ⟨?_, ?_, ?_, ?_, ?_⟩
  · intro he
    have h0 : s1.rows.length = 0 := by simp [he]
    refine ⟨by simp only [r]; omega, ?_⟩
    intro i p hi
    have := hc2 i p hi
    rw [h0, Nat.zero_add] at this
    exact this
  · intro he
    have h0 : s2.rows.length = 0 := by simp [he]
    exact ⟨by simp only [r]; omega, hc1⟩
  · intro h0 i p hi
    rw [hc1 i p hi, if_neg (by omega)]
  · intro h0 i p hi
    rw [hc2 i p hi, if_neg (by omega)]
  · intro e1 e2
    simp [r, specAppend, e1, e2]

/-! ## PROPERTY: the plate-MJD key -/

/-- PROPERTY.  `(plate << 16) + mjd` identifies the pair when `mjd < 2^16`. -/
theorem key_injective (p1 m1 p2 m2 : Nat) (h1 : m1 < 2 ^ 16) (h2 : m2 < 2 ^ 16)
    (h : key p1 m1 = key p2 m2) : p1 = p2 ∧ m1 = m2 := by
  simp only [key, Nat.shiftLeft_eq] at h
  omega

theorem key_decode (p m : Nat) (h : m < 2 ^ 16) :
    key p m >>> 16 = p ∧ key p m &&& ((1 <<< 16) - 1) = m := by
  have e : (1 <<< 16) - 1 = 2 ^ 16 - 1 := by decide
  rw [e, Nat.and_two_pow_sub_one_eq_mod, Nat.shiftRight_eq_div_pow]
  simp only [key, Nat.shiftLeft_eq]
  omega

/-- the decoding `u ↦ (u >> 16, u & 0xffff)` used by the loop is injective on all keys -/
theorem decode_inj (u v : Nat) (h1 : u >>> 16 = v >>> 16)
    (h2 : u &&& ((1 <<< 16) - 1) = v &&& ((1 <<< 16) - 1)) : u = v := by
  have e : (1 <<< 16) - 1 = 2 ^ 16 - 1 := by decide
  rw [e, Nat.and_two_pow_sub_one_eq_mod, Nat.and_two_pow_sub_one_eq_mod] at h2
  rw [Nat.shiftRight_eq_div_pow, Nat.shiftRight_eq_div_pow] at h1
  omega

/-! ## helpers: gathers and permutations -/

theorem filterMap_getElem?_eq_map {β} (l : List β) (d : β) (j : List Nat) (h : ∀ k ∈ j, k < l.length) :
    j.filterMap (l[·]?) = j.map (l.getD · d) := by
  induction j with
  | nil => rfl
  | cons k ks ih =>
    have hk : k < l.length := h k (by simp)
    have := ih (fun x hx => h x (by simp [hx]))
    simp [List.getElem?_eq_getElem hk, this, List.getD_eq_getElem?_getD]

theorem range_filterMap_getElem? {β} (l : List β) : (List.range l.length).filterMap (l[·]?) = l := by
  cases l with
  | nil => rfl
  | cons d t =>
    rw [filterMap_getElem?_eq_map _ d _ (by simp [List.mem_range])]
    apply List.ext_getElem
    · simp
    · intro i h1 h2
      simp [List.getD_eq_getElem?_getD, List.getElem?_eq_getElem h2]

/-- the contract of `np.argsort`: it returns *a* permutation of the positions that sorts the values -/
def IsArgsort (argsort : List Nat → List Nat) : Prop :=
  ∀ a, (argsort a).Perm (List.range a.length) ∧ ((argsort a).filterMap (a[·]?)).Pairwise (· ≤ ·)

/-- PROPERTY.  If `a` (the request positions in the order the files were read) is a permutation of
`0..n-1`, then gathering by ANY sorting permutation `j` of `a` undoes it: `a[j[i]] = i` for all i. -/
theorem argsort_perm_inverse (a j : List Nat) (ha : a.Perm (List.range a.length))
    (hj : j.Perm (List.range a.length)) (hs : (j.filterMap (a[·]?)).Pairwise (· ≤ ·)) :
    j.filterMap (a[·]?) = List.range a.length := by
  have h1 : (j.filterMap (a[·]?)).Perm (List.range a.length) := by
    have := hj.filterMap (a[·]?)
    rw [range_filterMap_getElem?] at this
    exact this.trans ha
  have h2 : (List.range a.length).Pairwise (· ≤ ·) :=
    List.Pairwise.imp (fun h => Nat.le_of_lt h) List.pairwise_lt_range
  exact List.Perm.eq_of_pairwise (fun x y _ _ hxy hyx => Nat.le_antisymm hxy hyx) hs h2 h1

/-- PROPERTY (non-vacuity of the contract).  The stand-in used by the driver is an argsort. -/
theorem argsortImpl_isArgsort : IsArgsort argsortImpl := by
  intro a
  have hp : (argsortImpl a).Perm (List.range a.length) := List.mergeSort_perm _ _
  refine ⟨hp, ?_⟩
  have hmem : ∀ k ∈ argsortImpl a, k < a.length := fun k hk => List.mem_range.mp (hp.mem_iff.mp hk)
  rw [filterMap_getElem?_eq_map a 0 _ hmem, List.pairwise_map]
  have := List.pairwise_mergeSort (le := fun i k => decide (a.getD i 0 ≤ a.getD k 0))
    (fun x y z hxy hyz => by simp only [decide_eq_true_eq] at *; omega)
    (fun x y => by simp only [Bool.or_eq_true, decide_eq_true_eq]; omega) (List.range a.length)
  exact this.imp (fun h => by simpa using h)

/-- gathering `idx.map g` by a sorting permutation of `idx` gives `g 0, g 1, ...` -/
theorem gather_map {β} (idx : List Nat) (g : Nat → β) (j : List Nat)
    (hj : j.Perm (List.range idx.length)) (hinv : j.filterMap (idx[·]?) = List.range idx.length) :
    gather (idx.map g) j = .ok ((List.range idx.length).map g) := by
  have hall : j.all (· < (idx.map g).length) = true := by
    simp only [List.all_eq_true, decide_eq_true_eq, List.length_map]
    exact fun k hk => List.mem_range.mp (hj.mem_iff.mp hk)
  simp only [gather, hall, if_true]
  have : (fun (k : Nat) => (idx.map g)[k]?) = fun (k : Nat) => (idx[k]?).map g := by funext k; simp
  rw [this, ← List.map_filterMap, hinv]
  rfl

/-! ## helpers: np.unique -/

theorem mem_insertU (a x : Nat) (l : List Nat) : a ∈ insertU x l ↔ a = x ∨ a ∈ l := by
  induction l with
  | nil => simp [insertU]
  | cons y ys ih =>
    unfold insertU
    split
    · simp
    · split
      · subst_vars; simp
      · simp [ih]; constructor <;> (intro h; rcases h with h | h | h <;> simp [h])

theorem pairwise_insertU (x : Nat) (l : List Nat) (h : l.Pairwise (· < ·)) : (insertU x l).Pairwise (· < ·) := by
  induction l with
  | nil => simp [insertU]
  | cons y ys ih =>
    have hy := List.pairwise_cons.mp h
    unfold insertU
    split
    · refine List.pairwise_cons.mpr ⟨?_, h⟩
      intro b hb
      rcases List.mem_cons.mp hb with rfl | hb
      · assumption
      · exact Nat.lt_trans ‹x < y› (hy.1 b hb)
    · split
      · exact h
      · refine List.pairwise_cons.mpr ⟨?_, ih hy.2⟩
        intro b hb
        rcases (mem_insertU b x ys).mp hb with rfl | hb
        · omega
        · exact hy.1 b hb

theorem mem_uniq (a : Nat) (l : List Nat) : a ∈ uniq l ↔ a ∈ l := by
  induction l with
  | nil => simp [uniq]
  | cons y ys ih =>
    have : uniq (y :: ys) = insertU y (uniq ys) := rfl
    rw [this, mem_insertU, ih]; simp

theorem pairwise_uniq (l : List Nat) : (uniq l).Pairwise (· < ·) := by
  induction l with
  | nil => simp [uniq]
  | cons y ys ih => exact pairwise_insertU y _ ih

theorem nodup_uniq (l : List Nat) : (uniq l).Nodup :=
  (pairwise_uniq l).imp (fun h => Nat.ne_of_lt h)

/-! ## helpers: one pass of the loop -/

section Core
variable {α τ : Type} [Scalar α]

/-- the zero of `np.zeros` -/
abbrev zero : α := Scalar.ofNat 0

/-- file row of request `i`: `fibre_i - 1` -/
def rowOf (fv : List Int) (i : Nat) : Nat := (fv.getD i 0 - 1).toNat

theorem rowIndex_valid (nfib : Nat) (x : Int) (h1 : 1 ≤ x) (h2 : x ≤ nfib) :
    rowIndex nfib x = some (x - 1).toNat := by
  have : 0 ≤ x - 1 ∧ x - 1 < (nfib : Int) := by omega
  simp only [rowIndex]
  rw [if_pos this]

/-- the pixels request `i` asks for in image `h` (7 = loglam) when its file is `f` -/
def srcRow (fv : List Int) (f : PlateFile α τ) (h i : Nat) : List α :=
  if h == 7 then loglam0 f else f.img h (rowOf fv i)

theorem tmpImg_eq (fv : List Int) (f : PlateFile α τ) (idx : List Nat) (h : Nat) :
    tmpImg f (idx.map (rowOf fv)) h = ⟨f.npix, idx.map (srcRow fv f h)⟩ := by
  unfold tmpImg srcRow
  split <;> simp [List.map_map, Function.comp_def]

theorem step_eval (S : Survey α τ) (pv mv : List Nat) (fv : List Int) (st : Option (Acc α τ)) (u : Nat)
    (f : PlateFile α τ) (hS : S (u >>> 16) (u &&& ((1 <<< 16) - 1)) = some f)
    (hfib : ∀ i ∈ idxOf pv mv u, 1 ≤ fv.getD i 0 ∧ fv.getD i 0 ≤ f.nfib) :
    step S pv mv fv st u = .ok (some (stepOk f (idxOf pv mv u) ((idxOf pv mv u).map (rowOf fv)) st)) := by
  have hall : ((idxOf pv mv u).map (fun i => fv.getD i 0)).all (fun x => (rowIndex f.nfib x).isSome) = true := by
    simp only [List.all_eq_true, List.mem_map]
    rintro x ⟨i, hi, rfl⟩
    rw [rowIndex_valid _ _ (hfib i hi).1 (hfib i hi).2]; rfl
  have hrows : ((idxOf pv mv u).map (fun i => fv.getD i 0)).map (fun x => (rowIndex f.nfib x).getD 0)
      = (idxOf pv mv u).map (rowOf fv) := by
    rw [List.map_map]
    apply List.map_congr_left
    intro i hi
    show (rowIndex f.nfib (fv.getD i 0)).getD 0 = rowOf fv i
    rw [rowIndex_valid _ _ (hfib i hi).1 (hfib i hi).2]
    rfl
  simp only [step, hS, hall, hrows]
  rfl

/-- `specAppend .. 0` of an accumulated block (rows padded to `w`) and the rows of a new file -/
theorem specAppend_padded (w np : Nat) (idx0 idx : List Nat) (g : Nat → List α) :
    specAppend (zero : α) ⟨w, idx0.map (fun i => padTo zero w (g i))⟩ ⟨np, idx.map g⟩ 0
      = ⟨max w np, (idx0 ++ idx).map (fun i => padTo zero (max w np) (g i))⟩ := by
  have e1 : nadd1 0 = 0 := by decide
  have e2 : nadd2 0 = 0 := by decide
  simp only [specAppend, e1, e2, Nat.add_zero, List.map_map, List.map_append, Function.comp_def, place_zero,
    padTo_padTo]
  congr 3
  funext i
  congr 1
  omega

end Core

/-! ## helpers: the invariant of the loop over the keys -/

section Loop
variable {α τ : Type} [Scalar α]

/-- the domain of the statement, for request vectors `(pv, mv, fv)` of length n:
`files i` is the spPlate file of request i, `zt` / `tt` the spZbest / photoPlate tables
(`none`: no requested plate has the file, `some t`: every one has it, `t i` being the table of request i) -/
structure Domain (S : Survey α τ) (pv mv : List Nat) (fv : List Int) (files : Nat → PlateFile α τ)
    (zt tt : Option (Nat → Nat → τ)) : Prop where
  len_mv : mv.length = pv.length
  len_fv : fv.length = pv.length
  mjd_lt : ∀ i, i < pv.length → mv.getD i 0 < 2 ^ 16
  file : ∀ i, i < pv.length → S (pv.getD i 0) (mv.getD i 0) = some (files i)
  fiber : ∀ i, i < pv.length → 1 ≤ fv.getD i 0 ∧ fv.getD i 0 ≤ (files i).nfib
  rect : ∀ i, i < pv.length → ∀ h ∈ imgHdus, h ≠ 7 → ∀ r, r < (files i).nfib →
    ((files i).img h r).length = (files i).npix
  zans : ∀ i, i < pv.length → (files i).zans = zt.map (fun t => t i)
  tsobj : ∀ i, i < pv.length → (files i).tsobj = tt.map (fun t => t i)

variable {S : Survey α τ} {pv mv : List Nat} {fv : List Int} {files : Nat → PlateFile α τ}
  {zt tt : Option (Nat → Nat → τ)}

theorem mem_idxOf (u i : Nat) : i ∈ idxOf pv mv u ↔
    i < pv.length ∧ pv.getD i 0 = u >>> 16 ∧ mv.getD i 0 = u &&& ((1 <<< 16) - 1) := by
  simp [idxOf, List.mem_filter, List.mem_range]

omit [Scalar α] in
/-- what is known about a key that comes from request `i0` -/
theorem good_key (D : Domain S pv mv fv files zt tt) (i0 : Nat) (h0 : i0 < pv.length)
    (u : Nat) (hu : u = key (pv.getD i0 0) (mv.getD i0 0)) :
    i0 ∈ idxOf pv mv u ∧ S (u >>> 16) (u &&& ((1 <<< 16) - 1)) = some (files i0) ∧
    ∀ i ∈ idxOf pv mv u, i < pv.length ∧ files i = files i0 := by
  subst hu
  obtain ⟨d1, d2⟩ := key_decode (pv.getD i0 0) (mv.getD i0 0) (D.mjd_lt i0 h0)
  refine ⟨(mem_idxOf _ i0).mpr ⟨h0, d1.symm, d2.symm⟩, ?_, ?_⟩
  · rw [d1, d2]; exact D.file i0 h0
  · intro i hi
    obtain ⟨hi1, hi2, hi3⟩ := (mem_idxOf _ i).mp hi
    refine ⟨hi1, ?_⟩
    have := D.file i hi1
    rw [hi2, hi3, d1, d2, D.file i0 h0] at this
    exact (Option.some.inj this).symm

/-- the accumulated state after the keys `done` -/
def Inv (pv mv : List Nat) (fv : List Int) (files : Nat → PlateFile α τ) (zt tt : Option (Nat → Nat → τ))
    (done : List Nat) (a : Acc α τ) : Prop :=
  ∃ w, a.allidx = done.flatMap (idxOf pv mv) ∧
    a.imgs = imgHdus.map (fun h => ⟨w, a.allidx.map (fun i => padTo zero w (srcRow fv (files i) h i))⟩) ∧
    a.plug = a.allidx.map (fun i => (files i).plug (rowOf fv i)) ∧
    a.zans = zt.map (fun t => a.allidx.map (fun i => t i (rowOf fv i))) ∧
    a.tsobj = tt.map (fun t => a.allidx.map (fun i => t i (rowOf fv i))) ∧
    (∀ i ∈ a.allidx, (files i).npix ≤ w) ∧ (∃ i ∈ a.allidx, (files i).npix = w)

theorem srcRow_length (D : Domain S pv mv fv files zt tt) (i : Nat) (hi : i < pv.length) (h : Nat)
    (hh : h ∈ imgHdus) : (srcRow fv (files i) h i).length = (files i).npix := by
  unfold srcRow
  split
  · simp [loglam0]
  · rename_i h7
    have hf := D.fiber i hi
    apply D.rect i hi h hh (by simpa using h7)
    unfold rowOf; omega

omit [Scalar α] in
/-- the table part of a pass -/
theorem tab_new (get : PlateFile α τ → Option (Nat → τ)) (xt : Option (Nat → Nat → τ)) (idx : List Nat) (i0 : Nat)
    (hget : ∀ i ∈ idx, get (files i0) = xt.map (fun t => t i)) :
    (get (files i0)).map (fun t => idx.map (fun i => t (rowOf fv i)))
      = if idx = [] then (get (files i0)).map (fun _ => []) else xt.map (fun t => idx.map (fun i => t i (rowOf fv i))) := by
  split
  · subst_vars; simp
  · cases xt with
    | none =>
      cases idx with
      | nil => contradiction
      | cons i t => simp [hget i (by simp)]
    | some t =>
      cases idx with
      | nil => contradiction
      | cons i0' rest =>
        have h0 := hget i0' (by simp)
        simp only [Option.map_some] at h0 ⊢
        rw [h0]
        simp only [Option.map_some, Option.some.injEq]
        apply List.map_congr_left
        intro i hi
        have := hget i hi
        rw [h0] at this
        simp only [Option.map_some, Option.some.injEq] at this
        rw [this]

theorem catOpt_none_left {τ} (x : Option (List τ)) : catOpt none x = x := by cases x <;> rfl

theorem catOpt_map {β τ} (xt : Option β) (A B : β → List τ) :
    catOpt (xt.map A) (xt.map B) = xt.map (fun t => A t ++ B t) := by cases xt <;> rfl

/-- the `tmp` data of the pass for a key that comes from request `i0`, in terms of the requests -/
theorem pass_data (D : Domain S pv mv fv files zt tt) (i0 : Nat) (h0 : i0 < pv.length)
    (u : Nat) (hu : u = key (pv.getD i0 0) (mv.getD i0 0)) (idx : List Nat) (hidx : idx = idxOf pv mv u)
    (f : PlateFile α τ) (hf : f = files i0) :
    (∀ h, tmpImg f (idx.map (rowOf fv)) h = ⟨f.npix, idx.map (fun i => srcRow fv (files i) h i)⟩) ∧
    (idx.map (rowOf fv)).map f.plug = idx.map (fun i => (files i).plug (rowOf fv i)) ∧
    f.zans.map (fun t => (idx.map (rowOf fv)).map t) = zt.map (fun t => idx.map (fun i => t i (rowOf fv i))) ∧
    f.tsobj.map (fun t => (idx.map (rowOf fv)).map t) = tt.map (fun t => idx.map (fun i => t i (rowOf fv i))) := by
  subst hidx hf
  obtain ⟨hmem0, _, hall⟩ := good_key D i0 h0 u hu
  have hne : idxOf pv mv u ≠ [] := List.ne_nil_of_mem hmem0
  refine ⟨?_, ?_, ?_, ?_⟩
  · intro h
    rw [tmpImg_eq]
    congr 1
    apply List.map_congr_left
    intro i hi
    rw [(hall i hi).2]
  · rw [List.map_map]
    apply List.map_congr_left
    intro i hi
    simp only [Function.comp_def, (hall i hi).2]
  · have := tab_new (fv := fv) (files := files) (fun f => f.zans) zt (idxOf pv mv u) i0
      (fun i hi => by rw [← (hall i hi).2]; exact D.zans i (hall i hi).1)
    simp only [hne, if_false] at this
    simpa [List.map_map, Function.comp_def] using this
  · have := tab_new (fv := fv) (files := files) (fun f => f.tsobj) tt (idxOf pv mv u) i0
      (fun i hi => by rw [← (hall i hi).2]; exact D.tsobj i (hall i hi).1)
    simp only [hne, if_false] at this
    simpa [List.map_map, Function.comp_def] using this

theorem inv_first (D : Domain S pv mv fv files zt tt) (i0 : Nat) (h0 : i0 < pv.length)
    (u : Nat) (hu : u = key (pv.getD i0 0) (mv.getD i0 0)) :
    Inv pv mv fv files zt tt [u]
      (stepOk (files i0) (idxOf pv mv u) ((idxOf pv mv u).map (rowOf fv)) none) := by
  obtain ⟨hmem0, _, hall⟩ := good_key D i0 h0 u hu
  obtain ⟨p1, p2, p3, p4⟩ := pass_data D i0 h0 u hu _ rfl _ rfl
  refine ⟨(files i0).npix, by simp [stepOk], ?_, ?_, ?_, ?_, ?_, ?_⟩
  · simp only [stepOk]
    apply List.map_congr_left
    intro h hh
    rw [p1 h]
    congr 1
    apply List.map_congr_left
    intro i hi
    rw [padTo_of_length]
    rw [srcRow_length D i (hall i hi).1 h hh, (hall i hi).2]
    exact Nat.le_refl _
  · simp only [stepOk]; exact p2
  · simp only [stepOk, catOpt_none_left]; exact p3
  · simp only [stepOk, catOpt_none_left]; exact p4
  · intro i hi
    simp only [stepOk] at hi
    rw [(hall i hi).2]; exact Nat.le_refl _
  · exact ⟨i0, by simpa [stepOk] using hmem0, rfl⟩

theorem inv_step (D : Domain S pv mv fv files zt tt) (i0 : Nat) (h0 : i0 < pv.length)
    (done : List Nat) (a : Acc α τ) (ha : Inv pv mv fv files zt tt done a)
    (u : Nat) (hu : u = key (pv.getD i0 0) (mv.getD i0 0)) :
    Inv pv mv fv files zt tt (done ++ [u])
      (stepOk (files i0) (idxOf pv mv u) ((idxOf pv mv u).map (rowOf fv)) (some a)) := by
  obtain ⟨hmem0, _, hall⟩ := good_key D i0 h0 u hu
  obtain ⟨p1, p2, p3, p4⟩ := pass_data D i0 h0 u hu _ rfl _ rfl
  obtain ⟨w, a1, a2, a3, a4, a5, a6, a7⟩ := ha
  refine ⟨max w (files i0).npix, by simp [stepOk, a1], ?_, ?_, ?_, ?_, ?_, ?_⟩
  · simp only [stepOk]
    rw [a2, List.zipWith_map, List.zipWith_self]
    apply List.map_congr_left
    intro h _
    rw [p1 h]
    exact specAppend_padded w (files i0).npix a.allidx (idxOf pv mv u) (fun i => srcRow fv (files i) h i)
  · simp only [stepOk, a3, p2, List.map_append]
  · simp only [stepOk, a4, p3, catOpt_map, List.map_append]
  · simp only [stepOk, a5, p4, catOpt_map, List.map_append]
  · intro i hi
    simp only [stepOk, List.mem_append] at hi
    rcases hi with hi | hi
    · exact Nat.le_trans (a6 i hi) (Nat.le_max_left _ _)
    · rw [(hall i hi).2]; exact Nat.le_max_right _ _
  · obtain ⟨k, hk, hkw⟩ := a7
    by_cases hc : (files i0).npix ≤ w
    · exact ⟨k, by simp [stepOk, hk], by omega⟩
    · exact ⟨i0, by simp only [stepOk, List.mem_append]; exact Or.inr hmem0, by omega⟩

theorem fold_inv (D : Domain S pv mv fv files zt tt) (us : List Nat)
    (hus : ∀ u ∈ us, ∃ i0, i0 < pv.length ∧ u = key (pv.getD i0 0) (mv.getD i0 0))
    (done : List Nat) (a : Acc α τ) (ha : Inv pv mv fv files zt tt done a) :
    ∃ a', us.foldlM (step S pv mv fv) (some a) = .ok (some a') ∧ Inv pv mv fv files zt tt (done ++ us) a' := by
  induction us generalizing done a with
  | nil => exact ⟨a, rfl, by simpa using ha⟩
  | cons u us ih =>
    obtain ⟨i0, h0, hu⟩ := hus u (by simp)
    obtain ⟨_, hS, hall⟩ := good_key D i0 h0 u hu
    have hfib : ∀ i ∈ idxOf pv mv u, 1 ≤ fv.getD i 0 ∧ fv.getD i 0 ≤ (files i0).nfib := by
      intro i hi
      have := D.fiber i (hall i hi).1
      rwa [(hall i hi).2] at this
    have hstep := step_eval S pv mv fv (some a) u (files i0) hS hfib
    obtain ⟨a', h1, h2⟩ := ih (fun v hv => hus v (by simp [hv])) (done ++ [u]) _ (inv_step D i0 h0 done a ha u hu)
    refine ⟨a', ?_, by simpa using h2⟩
    rw [List.foldlM_cons, hstep]
    exact h1

theorem fold_all (D : Domain S pv mv fv files zt tt) (u : Nat) (us : List Nat)
    (hus : ∀ v ∈ u :: us, ∃ i0, i0 < pv.length ∧ v = key (pv.getD i0 0) (mv.getD i0 0)) :
    ∃ a', (u :: us).foldlM (step S pv mv fv) none = .ok (some a') ∧ Inv pv mv fv files zt tt (u :: us) a' := by
  obtain ⟨i0, h0, hu⟩ := hus u (by simp)
  obtain ⟨_, hS, hall⟩ := good_key D i0 h0 u hu
  have hfib : ∀ i ∈ idxOf pv mv u, 1 ≤ fv.getD i 0 ∧ fv.getD i 0 ≤ (files i0).nfib := by
    intro i hi
    have := D.fiber i (hall i hi).1
    rwa [(hall i hi).2] at this
  have hstep := step_eval S pv mv fv none u (files i0) hS hfib
  obtain ⟨a', h1, h2⟩ := fold_inv D us (fun v hv => hus v (by simp [hv])) [u] _ (inv_first D i0 h0 u hu)
  refine ⟨a', ?_, by simpa using h2⟩
  rw [List.foldlM_cons, hstep]
  exact h1

omit [Scalar α] in
/-- the keys that are looped over are exactly the keys of the requests -/
theorem mem_keys (hlen : mv.length = pv.length) (u : Nat) :
    u ∈ uniq (List.zipWith key pv mv) ↔ ∃ i0, i0 < pv.length ∧ u = key (pv.getD i0 0) (mv.getD i0 0) := by
  rw [mem_uniq, List.mem_iff_getElem]
  constructor
  · rintro ⟨i, hi, rfl⟩
    have hi' : i < pv.length := by simp at hi; omega
    have hi'' : i < mv.length := by omega
    refine ⟨i, hi', ?_⟩
    simp [List.getD_eq_getElem?_getD, List.getElem?_eq_getElem hi', List.getElem?_eq_getElem hi'']
  · rintro ⟨i, hi, rfl⟩
    have hi'' : i < mv.length := by omega
    refine ⟨i, by simp; omega, ?_⟩
    simp [List.getD_eq_getElem?_getD, List.getElem?_eq_getElem hi, List.getElem?_eq_getElem hi'']

omit [Scalar α] in
/-- every request position is read exactly once: `allpmjdindex` is a permutation of 0..n-1 -/
theorem allidx_perm (D : Domain S pv mv fv files zt tt) :
    ((uniq (List.zipWith key pv mv)).flatMap (idxOf pv mv)).Perm (List.range pv.length) := by
  apply (List.perm_ext_iff_of_nodup ?_ List.nodup_range).mpr
  · intro i
    rw [List.mem_flatMap, List.mem_range]
    constructor
    · rintro ⟨u, _, hi⟩
      exact ((mem_idxOf u i).mp hi).1
    · intro hi
      refine ⟨key (pv.getD i 0) (mv.getD i 0), (mem_keys D.len_mv _).mpr ⟨i, hi, rfl⟩, ?_⟩
      exact (good_key D i hi _ rfl).1
  · rw [List.nodup_iff_pairwise_ne, List.pairwise_flatMap]
    refine ⟨fun u _ => ?_, ?_⟩
    · exact (List.nodup_range (n := pv.length)).sublist List.filter_sublist
    · refine (nodup_uniq _).imp ?_
      intro u v huv x hx y hy hxy
      subst hxy
      obtain ⟨_, a1, a2⟩ := (mem_idxOf u x).mp hx
      obtain ⟨_, b1, b2⟩ := (mem_idxOf v x).mp hy
      exact huv (decode_inj u v (by omega) (by omega))

theorem mapM_ok {ε β γ : Type} (F : β → Except ε γ) (G : β → γ) (l : List β)
    (h : ∀ x ∈ l, F x = .ok (G x)) : l.mapM F = .ok (l.map G) := by
  induction l with
  | nil => rfl
  | cons x xs ih =>
    rw [List.mapM_cons, h x (by simp), ih (fun y hy => h y (by simp [hy]))]
    rfl

/-- readspec on request vectors of the domain returns, for EVERY request vector, the rows of the
requests in request order (list form; the property theorems below read it off row by row) -/
theorem readspecCore_eq (argsort : List Nat → List Nat) (hA : IsArgsort argsort)
    (D : Domain S pv mv fv files zt tt) (hn : 0 < pv.length) :
    ∃ w, (∀ i, i < pv.length → (files i).npix ≤ w) ∧ (∃ i, i < pv.length ∧ (files i).npix = w) ∧
      readspecCore argsort S pv mv fv = .ok
        ⟨imgHdus.map (fun h => ⟨w, (List.range pv.length).map (fun i => padTo zero w (srcRow fv (files i) h i))⟩),
         (List.range pv.length).map (fun i => (files i).plug (rowOf fv i)),
         zt.map (fun t => (List.range pv.length).map (fun i => t i (rowOf fv i))),
         tt.map (fun t => (List.range pv.length).map (fun i => t i (rowOf fv i)))⟩ := by
  have hkeys := fun u => (mem_keys (pv := pv) (mv := mv) D.len_mv u).mp
  have hne : key (pv.getD 0 0) (mv.getD 0 0) ∈ uniq (List.zipWith key pv mv) :=
    (mem_keys D.len_mv _).mpr ⟨0, hn, rfl⟩
  have hperm := allidx_perm D
  cases hk : uniq (List.zipWith key pv mv) with
  | nil => rw [hk] at hne; cases hne
  | cons u us =>
    rw [hk] at hperm
    obtain ⟨a, hfold, w, a1, a2, a3, a4, a5, a6, a7⟩ := fold_all D u us (fun v hv => hkeys v (hk ▸ hv))
    rw [← a1] at hperm
    have hlen : a.allidx.length = pv.length := by simpa using hperm.length_eq
    obtain ⟨hj, hs⟩ := hA a.allidx
    have hinv := argsort_perm_inverse a.allidx (argsort a.allidx) (hlen ▸ hperm) hj hs
    refine ⟨w, ?_, ?_, ?_⟩
    · intro i hi
      exact a6 i (hperm.mem_iff.mpr (List.mem_range.mpr hi))
    · obtain ⟨i, hi, hw⟩ := a7
      exact ⟨i, List.mem_range.mp (hperm.mem_iff.mp hi), hw⟩
    · simp only [readspecCore, hk]
      rw [hfold]
      show finish argsort a = _
      have himgs : a.imgs.mapM (fun s => do pure (⟨s.npix, ← gather s.rows (argsort a.allidx)⟩ : Img α))
          = .ok (imgHdus.map (fun h => ⟨w, (List.range pv.length).map
              (fun i => padTo zero w (srcRow fv (files i) h i))⟩)) := by
        rw [a2, List.mapM_map]
        apply mapM_ok
        intro h _
        simp only [Function.comp_def]
        rw [gather_map _ _ _ hj hinv, hlen]
        rfl
      have hplug : gather a.plug (argsort a.allidx)
          = .ok ((List.range pv.length).map (fun i => (files i).plug (rowOf fv i))) := by
        rw [a3, gather_map _ _ _ hj hinv, hlen]
      have hz : gatherOpt a.zans (argsort a.allidx)
          = .ok (zt.map (fun t => (List.range pv.length).map (fun i => t i (rowOf fv i)))) := by
        rw [a4]
        cases zt with
        | none => rfl
        | some t => simp only [gatherOpt, Option.map_some]; rw [gather_map _ _ _ hj hinv, hlen]; rfl
      have ht : gatherOpt a.tsobj (argsort a.allidx)
          = .ok (tt.map (fun t => (List.range pv.length).map (fun i => t i (rowOf fv i)))) := by
        rw [a5]
        cases tt with
        | none => rfl
        | some t => simp only [gatherOpt, Option.map_some]; rw [gather_map _ _ _ hj hinv, hlen]; rfl
      simp only [finish]
      rw [himgs, hplug, hz, ht]
      rfl

end Loop

/-! ## PROPERTY: readspec -/

section Main
variable {α τ : Type} [Scalar α]
variable {S : Survey α τ} {pv mv : List Nat} {fv : List Int} {files : Nat → PlateFile α τ}
  {zt tt : Option (Nat → Nat → τ)}

/-- PROPERTY.  For EVERY request vector `(pv, mv, fv)` of the domain (any order, repeats, mixtures of
plates and MJDs; `files i` = the spPlate file of `(plate_i, mjd_i)`), and for any sorting permutation
`argsort` may return: readspec succeeds, every image has n rows and `w` pixels where `w` is the
longest pixel count among the requested plates, and row i of every image read from HDU `h`
(flux, invvar, andmask, ormask, disp, sky) is row `fibre_i - 1` of HDU `h` of the file of request i,
followed by `w - npix_i` zeros: right-padded, never shifted. -/
theorem readspec_row_i (argsort : List Nat → List Nat) (hA : IsArgsort argsort)
    (D : Domain S pv mv fv files zt tt) (hn : 0 < pv.length) :
    ∃ res w, readspecCore argsort S pv mv fv = .ok res ∧
      (∀ i, i < pv.length → (files i).npix ≤ w) ∧ (∃ i, i < pv.length ∧ (files i).npix = w) ∧
      res.imgs.length = imgHdus.length ∧
      ∀ (k h : Nat), imgHdus[k]? = some h → h ≠ 7 →
        ∃ im : Img α, res.imgs[k]? = some im ∧ im.npix = w ∧ im.rows.length = pv.length ∧
          ∀ i, i < pv.length → im.rows[i]? =
            some ((files i).img h ((fv.getD i 0 - 1).toNat) ++ List.replicate (w - (files i).npix) zero) := by
  obtain ⟨w, h1, h2, h3⟩ := readspecCore_eq argsort hA D hn
  refine ⟨_, w, h3, h1, h2, by simp, ?_⟩
  intro k h hk h7
  refine ⟨⟨w, (List.range pv.length).map (fun i => padTo zero w (srcRow fv (files i) h i))⟩,
    by simp only [List.getElem?_map, hk, Option.map_some], rfl, by simp, ?_⟩
  intro i hi
  have hh : h ∈ imgHdus := List.mem_of_getElem? hk
  have hl := srcRow_length D i hi h hh
  have hs : srcRow fv (files i) h i = (files i).img h (rowOf fv i) := by
    unfold srcRow; simp [h7]
  simp only [List.getElem?_map, List.getElem?_range hi, Option.map_some, padTo, hl]
  rw [hs]; rfl

/-- PROPERTY.  Under the same hypotheses the wavelength array has the same shape and its row i is
`COEFF0_i + COEFF1_i * p` for the pixels `p < npix_i` of the plate of request i, and 0 in the padding. -/
theorem loglam_rows (argsort : List Nat → List Nat) (hA : IsArgsort argsort)
    (D : Domain S pv mv fv files zt tt) (hn : 0 < pv.length) :
    ∃ res w, readspecCore argsort S pv mv fv = .ok res ∧
      (∀ i, i < pv.length → (files i).npix ≤ w) ∧ (∃ i, i < pv.length ∧ (files i).npix = w) ∧
      ∃ im : Img α, res.imgs[6]? = some im ∧ im.npix = w ∧ im.rows.length = pv.length ∧
        ∀ i, i < pv.length → im.rows[i]? =
          some ((List.range (files i).npix).map (fun p => (files i).c0 + (files i).c1 * Scalar.ofNat p)
            ++ List.replicate (w - (files i).npix) zero) := by
  obtain ⟨w, h1, h2, h3⟩ := readspecCore_eq argsort hA D hn
  refine ⟨_, w, h3, h1, h2, ⟨w, (List.range pv.length).map (fun i => padTo zero w (srcRow fv (files i) 7 i))⟩,
    by simp [imgHdus], rfl, by simp, ?_⟩
  intro i hi
  have hl := srcRow_length D i hi 7 (by simp [imgHdus])
  have hs : srcRow fv (files i) 7 i = loglam0 (files i) := by
    unfold srcRow; simp
  simp only [List.getElem?_map, List.getElem?_range hi, Option.map_some, padTo, hl]
  rw [hs]; rfl

/-- PROPERTY.  Under the same hypotheses row i of the plug-map is row `fibre_i - 1` of the plug-map
of the file of request i; the redshift table (`zans`) and the photo table (`tsobj`) are returned
exactly when the files exist, and then row i is row `fibre_i - 1` of the table of request i. -/
theorem readspec_tables (argsort : List Nat → List Nat) (hA : IsArgsort argsort)
    (D : Domain S pv mv fv files zt tt) (hn : 0 < pv.length) :
    ∃ res, readspecCore argsort S pv mv fv = .ok res ∧
      res.plug.length = pv.length ∧
      (∀ i, i < pv.length → res.plug[i]? = some ((files i).plug ((fv.getD i 0 - 1).toNat))) ∧
      (zt = none → res.zans = none) ∧
      (∀ t, zt = some t → ∃ l, res.zans = some l ∧ l.length = pv.length ∧
        ∀ i, i < pv.length → l[i]? = some (t i ((fv.getD i 0 - 1).toNat))) ∧
      (tt = none → res.tsobj = none) ∧
      (∀ t, tt = some t → ∃ l, res.tsobj = some l ∧ l.length = pv.length ∧
        ∀ i, i < pv.length → l[i]? = some (t i ((fv.getD i 0 - 1).toNat))) := by
  obtain ⟨w, _, _, h3⟩ := readspecCore_eq argsort hA D hn
  refine ⟨_, h3, by simp, ?_, ?_, ?_, ?_, ?_⟩
  · intro i hi
    simp only [List.getElem?_map, List.getElem?_range hi, Option.map_some]; rfl
  · intro h; simp [h]
  · intro t h
    refine ⟨(List.range pv.length).map (fun i => t i (rowOf fv i)), by simp only [h, Option.map_some],
      by simp, ?_⟩
    intro i hi
    simp only [List.getElem?_map, List.getElem?_range hi, Option.map_some]; rfl
  · intro h; simp [h]
  · intro t h
    refine ⟨(List.range pv.length).map (fun i => t i (rowOf fv i)), by simp only [h, Option.map_some],
      by simp, ?_⟩
    intro i hi
    simp only [List.getElem?_map, List.getElem?_range hi, Option.map_some]; rfl

end Main

/-! ## PROPERTY: calling conventions -/

theorem bcast_same {β} (n : Nat) (l : List β) (h : l.length = n) : bcast n l = .ok l := by
  simp [bcast, h]; rfl

theorem bcast_one {β} (n : Nat) (v : β) : bcast n [v] = .ok (List.replicate n v) := by
  unfold bcast
  split
  · rename_i h
    have : 1 = n := by simpa using h
    subst this; rfl
  · rfl

theorem normalize_vec (latest : Nat → Nat) (pv mv : List Nat) (fv : List Int)
    (h1 : mv.length = pv.length) (h2 : fv.length = pv.length) (hn : 0 < pv.length) :
    normalize latest (.vec pv) (some (.vec mv)) (.vec fv) = .ok (pv, mv, fv) := by
  have e1 : bcast fv.length pv = .ok pv := bcast_same _ _ h2.symm
  have e2 : bcast pv.length fv = .ok fv := bcast_same _ _ h2
  have e3 : bcast pv.length mv = .ok mv := bcast_same _ _ h1
  have e0 : bcast pv.length pv = .ok pv := bcast_same _ _ rfl
  have n1 : pv.length ≠ 0 := by omega
  simp only [normalize, Arg.len, Arg.toList, h1, h2, bne_self_eq_false]
  by_cases hp : pv.length > 1 <;> simp [hp, n1, e0, e2, e3, bind, Except.bind, pure, Except.pure]

theorem normalize_latest (latest : Nat → Nat) (pv : List Nat) (fv : List Int)
    (h2 : fv.length = pv.length) (hn : 0 < pv.length) :
    normalize latest (.vec pv) none (.vec fv) = .ok (pv, pv.map latest, fv) := by
  have e1 : bcast fv.length pv = .ok pv := bcast_same _ _ h2.symm
  have e2 : bcast pv.length fv = .ok fv := bcast_same _ _ h2
  have e3 : bcast pv.length (pv.map latest) = .ok (pv.map latest) := bcast_same _ _ (by simp)
  have e0 : bcast pv.length pv = .ok pv := bcast_same _ _ rfl
  have n1 : pv.length ≠ 0 := by omega
  simp only [normalize, Arg.len, Arg.toList, h2, bne_self_eq_false]
  by_cases hp : pv.length > 1 <;> simp [hp, n1, e0, e2, e3, bind, Except.bind, pure, Except.pure]

theorem normalize_scalar_plate (latest : Nat → Nat) (p m : Nat) (fv : List Int) (hn : 0 < fv.length) :
    normalize latest (.scalar p) (some (.scalar m)) (.vec fv)
      = .ok (List.replicate fv.length p, List.replicate fv.length m, fv) := by
  have e1 := bcast_one fv.length p
  have e3 := bcast_one fv.length m
  have e4 : bcast 1 [m] = .ok [m] := bcast_same _ _ rfl
  have n1 : fv.length ≠ 0 := by omega
  simp only [normalize, Arg.len, Arg.toList]
  by_cases hp : fv.length > 1
  · simp [hp, n1, e1, e3, e4, bind, Except.bind, pure, Except.pure]
  · have : fv.length = 1 := by omega
    have e2 : bcast 1 fv = .ok fv := bcast_same _ _ this
    simp [this, e2, e4, bind, Except.bind, pure, Except.pure, bcast_same 1 [p] rfl]

theorem normalize_scalar_fiber (latest : Nat → Nat) (pv mv : List Nat) (f : Int)
    (h1 : mv.length = pv.length) (hn : 0 < pv.length) :
    normalize latest (.vec pv) (some (.vec mv)) (.scalar f) = .ok (pv, mv, List.replicate pv.length f) := by
  have e1 := bcast_one pv.length f
  have e3 : bcast pv.length mv = .ok mv := bcast_same _ _ h1
  have n1 : pv.length ≠ 0 := by omega
  simp only [normalize, Arg.len, Arg.toList, h1]
  by_cases hp : pv.length > 1
  · simp [hp, n1, e1, e3, bind, Except.bind, pure, Except.pure]
  · have : pv.length = 1 := by omega
    have e2 : bcast 1 pv = .ok pv := bcast_same _ _ this
    have e5 : bcast 1 mv = .ok mv := bcast_same _ _ (by omega)
    simp [this, e2, e5, bind, Except.bind, pure, Except.pure, bcast_same 1 [f] rfl]

theorem normalize_scalar (latest : Nat → Nat) (p m : Nat) (f : Int) :
    normalize latest (.scalar p) (some (.scalar m)) (.scalar f) = .ok ([p], [m], [f]) := by
  rfl

/-- PROPERTY.  What "request i" is under each calling convention (readspec 863-915): equal-length
vectors are taken as they are (with `mjd=None`: the latest MJD of each plate), a scalar plate-MJD is
repeated for every fibre, a scalar fibre for every plate-MJD, three scalars are one request.
Together with `readspec_row_i` / `loglam_rows` / `readspec_tables` (which hold for every request
vector) this gives the row-i statement for `readspec` itself under all these conventions. -/
theorem normalize_spec (latest : Nat → Nat) :
    (∀ (pv mv : List Nat) (fv : List Int), mv.length = pv.length → fv.length = pv.length → 0 < pv.length →
      normalize latest (.vec pv) (some (.vec mv)) (.vec fv) = .ok (pv, mv, fv)) ∧
    (∀ (pv : List Nat) (fv : List Int), fv.length = pv.length → 0 < pv.length →
      normalize latest (.vec pv) none (.vec fv) = .ok (pv, pv.map latest, fv)) ∧
    (∀ (p m : Nat) (fv : List Int), 0 < fv.length →
      normalize latest (.scalar p) (some (.scalar m)) (.vec fv)
        = .ok (List.replicate fv.length p, List.replicate fv.length m, fv)) ∧
    (∀ (pv mv : List Nat) (f : Int), mv.length = pv.length → 0 < pv.length →
      normalize latest (.vec pv) (some (.vec mv)) (.scalar f) = .ok (pv, mv, List.replicate pv.length f)) ∧
    (∀ (p m : Nat) (f : Int),
      normalize latest (.scalar p) (some (.scalar m)) (.scalar f) = .ok ([p], [m], [f])) :=
  ⟨normalize_vec latest, normalize_latest latest, normalize_scalar_plate latest,
   normalize_scalar_fiber latest, normalize_scalar latest⟩

/-- the public entry point under the plain vector convention is `readspecCore` on the same vectors, so
`readspec_row_i`, `loglam_rows` and `readspec_tables` speak about `readspec` itself -/
theorem readspec_vec {α τ : Type} [Scalar α] (argsort : List Nat → List Nat) (S : Survey α τ)
    (files : List (Nat × Nat)) (pv mv : List Nat) (fv : List Int)
    (h1 : mv.length = pv.length) (h2 : fv.length = pv.length) (hn : 0 < pv.length) :
    readspec argsort S files (.vec pv) (some (.vec mv)) (.vec fv) = readspecCore argsort S pv mv fv := by
  simp only [readspec, normalize_vec (latestMjd files) pv mv fv h1 h2 hn]
  rfl

/-! ## extension: `znum=` and `fiber=None` (model `readspecX`, end of Model/SpecOrder.lean) -/

section Ext
variable {α τ : Type} [Scalar α]

theorem stepOk_eq_G (f : PlateFile α τ) (p rows : List Nat) (st : Option (Acc α τ)) :
    stepOk f p rows st = stepOkG f p rows (f.zans.map (fun t => rows.map t)) st := by
  cases st <;> rfl

/-- the redshift table that `znum=k` reads for a file with `nper` fits per fibre: row r ↦ fit k of row r -/
def zTable (z : ZAll τ) (k : Int) : Nat → τ := fun r => z.row (r * z.nper + (k - 1).toNat)

/-- the survey whose redshift tables are the `znum=k` selections of the spZall files -/
def withZ (S : Survey α τ) (Z : ZSurvey τ) (k : Int) : Survey α τ := fun p m =>
  (S p m).map (fun f => { f with zans := (Z p m).map (fun z => zTable z k) })

omit [Scalar α] in
theorem zIndex_valid (z : ZAll τ) (nfib : Nat) (k x : Int) (hrows : z.nrows = nfib * z.nper)
    (hk1 : 1 ≤ k) (hk2 : k ≤ z.nper) (hx1 : 1 ≤ x) (hx2 : x ≤ nfib) :
    zIndex z k x = some ((x - 1).toNat * z.nper + (k - 1).toNat) := by
  obtain ⟨r, rfl⟩ : ∃ r : Nat, x = (r : Int) + 1 := ⟨(x - 1).toNat, by omega⟩
  obtain ⟨j, rfl⟩ : ∃ j : Nat, k = (j : Int) + 1 := ⟨(k - 1).toNat, by omega⟩
  have h1 : (r + 1) * z.nper ≤ nfib * z.nper := Nat.mul_le_mul_right _ (by omega)
  rw [Nat.succ_mul] at h1
  have e1 : (r : Int) + 1 - 1 = r := by omega
  have e2 : (j : Int) + 1 - 1 = j := by omega
  have e : (r : Int) * (z.nper : Int) + ((j : Int) + 1) - 1 = ((r * z.nper + j : Nat) : Int) := by
    rw [Int.natCast_add, Int.natCast_mul]; omega
  simp only [zIndex, npIndex, e1, e2, Int.toNat_natCast, e, hrows]
  rw [if_pos (by constructor <;> omega)]

theorem stepX_znum_eq (S : Survey α τ) (Z : ZSurvey τ) (k : Int) (pv mv : List Nat) (fv : List Int)
    (st : Option (Acc α τ)) (u : Nat) (f : PlateFile α τ)
    (hS : S (u >>> 16) (u &&& ((1 <<< 16) - 1)) = some f)
    (hfib : ∀ i ∈ idxOf pv mv u, 1 ≤ fv.getD i 0 ∧ fv.getD i 0 ≤ f.nfib)
    (hz : ∀ z, Z (u >>> 16) (u &&& ((1 <<< 16) - 1)) = some z → z.nrows = f.nfib * z.nper ∧ 1 ≤ k ∧ k ≤ z.nper) :
    stepX S Z (some k) pv mv fv st u = step (withZ S Z k) pv mv fv st u := by
  have hall : ((idxOf pv mv u).map (fun i => fv.getD i 0)).all (fun x => (rowIndex f.nfib x).isSome) = true := by
    simp only [List.all_eq_true, List.mem_map]
    rintro x ⟨i, hi, rfl⟩
    rw [rowIndex_valid _ _ (hfib i hi).1 (hfib i hi).2]; rfl
  cases hZ : Z (u >>> 16) (u &&& ((1 <<< 16) - 1)) with
  | none =>
    simp only [stepX, step, withZ, hS, hZ, Option.map_some, Option.map_none, hall, stepOk_eq_G]
    rfl
  | some z =>
    obtain ⟨z1, z2, z3⟩ := hz z hZ
    have hzall : ((idxOf pv mv u).map (fun i => fv.getD i 0)).all (fun x => (zIndex z k x).isSome) = true := by
      simp only [List.all_eq_true, List.mem_map]
      rintro x ⟨i, hi, rfl⟩
      rw [zIndex_valid z f.nfib k _ z1 z2 z3 (hfib i hi).1 (hfib i hi).2]; rfl
    have hzrows : ((idxOf pv mv u).map (fun i => fv.getD i 0)).map (fun x => z.row ((zIndex z k x).getD 0))
        = (((idxOf pv mv u).map (fun i => fv.getD i 0)).map (fun x => (rowIndex f.nfib x).getD 0)).map (zTable z k) := by
      simp only [List.map_map]
      apply List.map_congr_left
      intro i hi
      simp only [Function.comp_def, zTable]
      rw [zIndex_valid z f.nfib k _ z1 z2 z3 (hfib i hi).1 (hfib i hi).2,
        rowIndex_valid _ _ (hfib i hi).1 (hfib i hi).2]
      rfl
    simp only [stepX, step, withZ, hS, hZ, Option.map_some, hall, hzall, hzrows, stepOk_eq_G]
    rfl


theorem stepX_none (S : Survey α τ) (Z : ZSurvey τ) (pv mv : List Nat) (fv : List Int) :
    stepX S Z none pv mv fv = step S pv mv fv := by
  funext st u
  simp only [stepX, step]
  split
  · rfl
  · split
    · rfl
    · rw [stepOk_eq_G]

/-- with `znum` unset the extended model is the model the theorems above are about -/
theorem readspecCoreX_none (argsort : List Nat → List Nat) (S : Survey α τ) (Z : ZSurvey τ)
    (pv mv : List Nat) (fv : List Int) :
    readspecCoreX argsort S Z none pv mv fv = readspecCore argsort S pv mv fv := by
  simp only [readspecCoreX, readspecCore, stepX_none]

/-- PROPERTY (bridge).  `readspecX` with `fiber` given and no `znum` is `readspec`: every theorem about
`readspec` / `readspecCore` speaks about the extended entry point the driver runs. -/
theorem readspecX_plain (argsort : List Nat → List Nat) (S : Survey α τ) (Z : ZSurvey τ)
    (files : List (Nat × Nat)) (pl : Option (List PlateListRow)) (r2 r1 : String)
    (platein : Arg Nat) (mjd : Option (Arg Nat)) (fiber : Arg Int) :
    readspecX argsort S Z files pl r2 r1 platein mjd (some fiber) none = readspec argsort S files platein mjd fiber := by
  simp only [readspecX, readspec, readspecCoreX_none]

theorem foldlM_congr_mem {β γ ε : Type} (f g : β → γ → Except ε β) (l : List γ)
    (h : ∀ x ∈ l, ∀ b, f b x = g b x) (b : β) : l.foldlM f b = l.foldlM g b := by
  induction l generalizing b with
  | nil => rfl
  | cons x xs ih =>
    rw [List.foldlM_cons, List.foldlM_cons, h x (by simp) b]
    congr 1
    funext b'
    exact ih (fun y hy => h y (by simp [hy])) b'

/-- the domain of the `znum=k` statements: as `Domain`, but the redshifts come from spZall
(`zf = none`: no requested plate-MJD has the file; `some t`: every one has it, `t i` being the file of
request i, with `nfib_i * nper_i` rows and at least `k` fits per fibre); spZbest is not looked at -/
structure DomainZ (S : Survey α τ) (Z : ZSurvey τ) (k : Int) (pv mv : List Nat) (fv : List Int)
    (files : Nat → PlateFile α τ) (zf : Option (Nat → ZAll τ)) (tt : Option (Nat → Nat → τ)) : Prop where
  len_mv : mv.length = pv.length
  len_fv : fv.length = pv.length
  mjd_lt : ∀ i, i < pv.length → mv.getD i 0 < 2 ^ 16
  file : ∀ i, i < pv.length → S (pv.getD i 0) (mv.getD i 0) = some (files i)
  fiber : ∀ i, i < pv.length → 1 ≤ fv.getD i 0 ∧ fv.getD i 0 ≤ (files i).nfib
  rect : ∀ i, i < pv.length → ∀ h ∈ imgHdus, h ≠ 7 → ∀ r, r < (files i).nfib →
    ((files i).img h r).length = (files i).npix
  tsobj : ∀ i, i < pv.length → (files i).tsobj = tt.map (fun t => t i)
  zall : ∀ i, i < pv.length → Z (pv.getD i 0) (mv.getD i 0) = zf.map (fun t => t i)
  shape : ∀ t, zf = some t → ∀ i, i < pv.length →
    (t i).nrows = (files i).nfib * (t i).nper ∧ 1 ≤ k ∧ k ≤ (t i).nper

variable {S : Survey α τ} {Z : ZSurvey τ} {k : Int} {pv mv : List Nat} {fv : List Int}
  {files : Nat → PlateFile α τ} {zf : Option (Nat → ZAll τ)} {tt : Option (Nat → Nat → τ)}

/-- file of request i as `znum=k` sees it -/
def zFile (files : Nat → PlateFile α τ) (zf : Option (Nat → ZAll τ)) (k : Int) (i : Nat) : PlateFile α τ :=
  { files i with zans := zf.map (fun t => zTable (t i) k) }

omit [Scalar α] in
theorem DomainZ.toDomain (D : DomainZ S Z k pv mv fv files zf tt) :
    Domain (withZ S Z k) pv mv fv (zFile files zf k) (zf.map (fun t i => zTable (t i) k)) tt where
  len_mv := D.len_mv
  len_fv := D.len_fv
  mjd_lt := D.mjd_lt
  file := by
    intro i hi
    simp only [withZ, D.file i hi, D.zall i hi, Option.map_some, Option.map_map, zFile]
    rfl
  fiber := D.fiber
  rect := D.rect
  zans := by
    intro i _
    simp only [zFile, Option.map_map]
    rfl
  tsobj := D.tsobj

/-- PROPERTY (bridge).  On the domain, readspec with `znum=k` is readspec without `znum` on the survey whose
redshift tables are the fit-k selections `row r ↦ spZall row r*nper + k-1`: the grouping, reading and
reordering are the same computation. -/
theorem readspec_znum_transfer (argsort : List Nat → List Nat) (D : DomainZ S Z k pv mv fv files zf tt) :
    readspecCoreX argsort S Z (some k) pv mv fv = readspecCore argsort (withZ S Z k) pv mv fv := by
  have hfold : (uniq (List.zipWith key pv mv)).foldlM (stepX S Z (some k) pv mv fv) none
      = (uniq (List.zipWith key pv mv)).foldlM (step (withZ S Z k) pv mv fv) none := by
    apply foldlM_congr_mem
    intro u hu st
    obtain ⟨i0, h0, rfl⟩ := (mem_keys D.len_mv u).mp hu
    obtain ⟨d1, d2⟩ := key_decode (pv.getD i0 0) (mv.getD i0 0) (D.mjd_lt i0 h0)
    have hsame : ∀ i ∈ idxOf pv mv (key (pv.getD i0 0) (mv.getD i0 0)), i < pv.length ∧ files i = files i0 := by
      intro i hi
      obtain ⟨hi1, hi2, hi3⟩ := (mem_idxOf _ i).mp hi
      refine ⟨hi1, ?_⟩
      have := D.file i hi1
      rw [hi2, hi3, d1, d2, D.file i0 h0] at this
      exact (Option.some.inj this).symm
    apply stepX_znum_eq S Z k pv mv fv st _ (files i0)
    · rw [d1, d2]; exact D.file i0 h0
    · intro i hi
      have := D.fiber i (hsame i hi).1
      rwa [(hsame i hi).2] at this
    · intro z hz
      rw [d1, d2, D.zall i0 h0] at hz
      cases hzf : zf with
      | none => rw [hzf] at hz; cases hz
      | some t =>
        rw [hzf] at hz
        simp only [Option.map_some, Option.some.injEq] at hz
        subst hz
        exact D.shape t hzf i0 h0
  simp only [readspecCoreX, readspecCore, hfold]

/-- PROPERTY.  `znum=k`: for EVERY request vector of the domain, row i of `zans` is fit k of fibre_i of
(plate_i, mjd_i), i.e. row `(fibre_i - 1) * nper_i + k - 1` of that plate-MJD's spZall table; `zans` is absent
exactly when no requested plate-MJD has an spZall file. -/
theorem readspec_znum_row (argsort : List Nat → List Nat) (hA : IsArgsort argsort)
    (D : DomainZ S Z k pv mv fv files zf tt) (hn : 0 < pv.length) :
    ∃ res, readspecCoreX argsort S Z (some k) pv mv fv = .ok res ∧
      (zf = none → res.zans = none) ∧
      (∀ t, zf = some t → ∃ l, res.zans = some l ∧ l.length = pv.length ∧
        ∀ i, i < pv.length →
          l[i]? = some ((t i).row ((fv.getD i 0 - 1).toNat * (t i).nper + (k - 1).toNat))) := by
  obtain ⟨res, h1, _, _, h4, h5, _, _⟩ := readspec_tables argsort hA D.toDomain hn
  refine ⟨res, by rw [readspec_znum_transfer argsort D]; exact h1, ?_, ?_⟩
  · intro h; exact h4 (by simp [h])
  · intro t ht
    obtain ⟨l, l1, l2, l3⟩ := h5 (fun i => zTable (t i) k) (by simp [ht])
    exact ⟨l, l1, l2, fun i hi => by rw [l3 i hi]; rfl⟩

/-- PROPERTY (`readspec_row_i` on the extended domain).  With `znum=k` the images are what they are without it:
row i of the image of HDU h is row `fibre_i - 1` of the file of request i, right-padded with zeros to the
longest requested pixel count. -/
theorem readspec_row_i_znum (argsort : List Nat → List Nat) (hA : IsArgsort argsort)
    (D : DomainZ S Z k pv mv fv files zf tt) (hn : 0 < pv.length) :
    ∃ res w, readspecCoreX argsort S Z (some k) pv mv fv = .ok res ∧
      (∀ i, i < pv.length → (files i).npix ≤ w) ∧ (∃ i, i < pv.length ∧ (files i).npix = w) ∧
      res.imgs.length = imgHdus.length ∧
      ∀ (j h : Nat), imgHdus[j]? = some h → h ≠ 7 →
        ∃ im : Img α, res.imgs[j]? = some im ∧ im.npix = w ∧ im.rows.length = pv.length ∧
          ∀ i, i < pv.length → im.rows[i]? =
            some ((files i).img h ((fv.getD i 0 - 1).toNat) ++ List.replicate (w - (files i).npix) zero) := by
  obtain ⟨res, w, h1, h2⟩ := readspec_row_i argsort hA D.toDomain hn
  exact ⟨res, w, by rw [readspec_znum_transfer argsort D]; exact h1, h2⟩

/-- PROPERTY (`loglam_rows` on the extended domain). -/
theorem loglam_rows_znum (argsort : List Nat → List Nat) (hA : IsArgsort argsort)
    (D : DomainZ S Z k pv mv fv files zf tt) (hn : 0 < pv.length) :
    ∃ res w, readspecCoreX argsort S Z (some k) pv mv fv = .ok res ∧
      (∀ i, i < pv.length → (files i).npix ≤ w) ∧ (∃ i, i < pv.length ∧ (files i).npix = w) ∧
      ∃ im : Img α, res.imgs[6]? = some im ∧ im.npix = w ∧ im.rows.length = pv.length ∧
        ∀ i, i < pv.length → im.rows[i]? =
          some ((List.range (files i).npix).map (fun p => (files i).c0 + (files i).c1 * Scalar.ofNat p)
            ++ List.replicate (w - (files i).npix) zero) := by
  obtain ⟨res, w, h1, h2⟩ := loglam_rows argsort hA D.toDomain hn
  exact ⟨res, w, by rw [readspec_znum_transfer argsort D]; exact h1, h2⟩

/-- PROPERTY (`readspec_tables` on the extended domain).  With `znum=k` the plug-map and photo rows are what
they are without it (the redshift rows are in `readspec_znum_row`). -/
theorem readspec_tables_znum (argsort : List Nat → List Nat) (hA : IsArgsort argsort)
    (D : DomainZ S Z k pv mv fv files zf tt) (hn : 0 < pv.length) :
    ∃ res, readspecCoreX argsort S Z (some k) pv mv fv = .ok res ∧
      res.plug.length = pv.length ∧
      (∀ i, i < pv.length → res.plug[i]? = some ((files i).plug ((fv.getD i 0 - 1).toNat))) ∧
      (tt = none → res.tsobj = none) ∧
      (∀ t, tt = some t → ∃ l, res.tsobj = some l ∧ l.length = pv.length ∧
        ∀ i, i < pv.length → l[i]? = some (t i ((fv.getD i 0 - 1).toNat))) := by
  obtain ⟨res, h1, h2, h3, _, _, h6, h7⟩ := readspec_tables argsort hA D.toDomain hn
  exact ⟨res, by rw [readspec_znum_transfer argsort D]; exact h1, h2, h3, h6, h7⟩

/-! ### `fiber=None` -/

omit [Scalar α] in
theorem Arg.len_eq {β} (a : Arg β) : a.len = a.toList.length := by cases a <;> rfl

/-- number_of_fibers for one plate: 640 before MJD 55025, otherwise N_TOTAL of the first platelist row of
(plate, latest MJD, run2d, run1d) -/
theorem numberOfFibers_single (latest : Nat → Nat) (pl : Option (List PlateListRow)) (r2 r1 : String) (p : Nat) :
    (latest p < 55025 → numberOfFibers latest pl r2 r1 [p] = .ok [640]) ∧
    (∀ rows r rest, ¬ latest p < 55025 → pl = some rows →
      rows.filter (fun r => r.plate == p && r.mjd == latest p && r.run2d == r2 && r.run1d == r1) = r :: rest →
      numberOfFibers latest pl r2 r1 [p] = .ok [r.ntotal]) := by
  constructor
  · intro h
    simp [numberOfFibers, h]
    rfl
  · intro rows r rest h hpl hf
    simp [numberOfFibers, h, hpl, hf]
    rfl

omit [Scalar α] in
/-- PROPERTY.  What the requests are under `fiber=None` for one plate `p` (scalar or one-element vector) whose
fibre count is `n`: `(p, mjd, 1), (p, mjd, 2), ..., (p, mjd, n)` in this order, `mjd` being the given scalar MJD
or the latest MJD of the plate. -/
theorem normalizeAll_single (latest : Nat → Nat) (nfOf : List Nat → Except String (List Nat)) (platein : Arg Nat)
    (p n : Nat) (hp : platein.toList = [p]) (hnf : nfOf [p] = .ok [n]) (mjd : Option Nat) :
    normalizeAll latest nfOf platein (mjd.map Arg.scalar)
      = .ok (List.replicate n p, List.replicate n (mjd.getD (latest p)),
             (List.range n).map (fun (i : Nat) => (i : Int) + 1)) := by
  have hlen : platein.len = 1 := by rw [Arg.len_eq, hp]; rfl
  have hc : countFor [p] [n] p = n := by simp [countFor, uniq, insertU]
  have hu : uniq [p] = [p] := rfl
  cases mjd with
  | none =>
    simp only [normalizeAll, hp, hnf, hu, hc, Option.map_none, bind, Except.bind, pure, Except.pure,
      List.map_cons, List.map_nil, List.flatMap_cons, List.flatMap_nil, List.append_nil, List.sum_cons, List.sum_nil,
      List.length_replicate, List.length_map, List.length_range, Nat.add_zero, Nat.sub_self, List.replicate_zero,
      List.map_replicate, Option.getD_none]
    rw [bcast_same _ _ (by simp)]
  | some m =>
    have e1 : bcast 1 [m] = .ok [m] := bcast_same _ _ rfl
    have e2 : (Arg.scalar m : Arg Nat).len = 1 := rfl
    have e3 : (Arg.scalar m : Arg Nat).toList = [m] := rfl
    simp only [normalizeAll, hp, hlen, hnf, hu, hc, Option.map_some, bind, Except.bind, pure, Except.pure,
      List.map_cons, List.map_nil, List.flatMap_cons, List.flatMap_nil, List.append_nil, List.sum_cons, List.sum_nil,
      List.length_replicate, List.length_map, List.length_range, Nat.add_zero, Nat.sub_self, List.replicate_zero,
      e2, e3, bne_self_eq_false, Bool.false_eq_true, if_false, e1, bcast_one, Option.getD_some]

/-- PROPERTY (bridge).  `readspec(plate)` / `readspec(plate, mjd)` with `fiber=None` (any `znum`) is readspec on the
request vector "fibres 1..n of the plate": the row theorems (`readspec_row_i`, `readspec_tables`, the `_znum`
ones) apply to it. -/
theorem readspec_all_fibers_requests (argsort : List Nat → List Nat) (S : Survey α τ) (Z : ZSurvey τ)
    (files : List (Nat × Nat)) (pl : Option (List PlateListRow)) (r2 r1 : String) (platein : Arg Nat)
    (p n : Nat) (hp : platein.toList = [p])
    (hnf : numberOfFibers (latestMjd files) pl r2 r1 [p] = .ok [n]) (mjd : Option Nat) (znum : Option Int) :
    readspecX argsort S Z files pl r2 r1 platein (mjd.map Arg.scalar) none znum
      = readspecCoreX argsort S Z znum (List.replicate n p) (List.replicate n (mjd.getD (latestMjd files p)))
          ((List.range n).map (fun (i : Nat) => (i : Int) + 1)) := by
  simp only [readspecX, normalizeAll_single (latestMjd files) _ platein p n hp hnf mjd]
  rfl

omit [Scalar α] in
theorem getD_replicate {β} (n i : Nat) (v d : β) (hi : i < n) : (List.replicate n v).getD i d = v := by
  simp [List.getD_eq_getElem?_getD, hi]

omit [Scalar α] in
theorem getD_fibers (n i : Nat) (hi : i < n) :
    ((List.range n).map (fun (i : Nat) => (i : Int) + 1)).getD i 0 = (i : Int) + 1 := by
  simp [List.getD_eq_getElem?_getD, List.getElem?_map, List.getElem?_range hi]

omit [Scalar α] in
/-- the domain of "all fibres of one plate": n requests for the same file, fibres 1..n -/
theorem domain_all_fibers (S : Survey α τ) (p m n : Nat) (f : PlateFile α τ) (hm : m < 2 ^ 16) (hS : S p m = some f)
    (hnfib : n ≤ f.nfib) (hrect : ∀ h ∈ imgHdus, h ≠ 7 → ∀ r, r < f.nfib → (f.img h r).length = f.npix) :
    Domain S (List.replicate n p) (List.replicate n m) ((List.range n).map (fun (i : Nat) => (i : Int) + 1))
      (fun _ => f) (f.zans.map (fun t _ => t)) (f.tsobj.map (fun t _ => t)) where
  len_mv := by simp
  len_fv := by simp
  mjd_lt := by
    intro i hi
    rw [getD_replicate _ _ _ _ (by simpa using hi)]; exact hm
  file := by
    intro i hi
    have hi' : i < n := by simpa using hi
    rw [getD_replicate _ _ _ _ hi', getD_replicate _ _ _ _ hi']; exact hS
  fiber := by
    intro i hi
    have hi' : i < n := by simpa using hi
    rw [getD_fibers n i hi']
    constructor <;> omega
  rect := fun _ _ => hrect
  zans := by intro i _; cases f.zans <;> rfl
  tsobj := by intro i _; cases f.tsobj <;> rfl

/-- PROPERTY.  `fiber=None` for one plate `p` (scalar or one-element vector; `mjd` given as a scalar or found by
latest_mjd) whose fibre count `number_of_fibers` reports as `n` (`0 < n ≤` rows of the file): readspec succeeds and
returns exactly n rows, row i being fibre i+1 of the plate - every image row i is row i of the file's HDU,
unpadded (`npix` pixels), plug-map / redshift / photo row i is row i of the file's table; the tables are present
exactly when the file has them. -/
theorem readspec_all_fibers (argsort : List Nat → List Nat) (hA : IsArgsort argsort) (S : Survey α τ) (Z : ZSurvey τ)
    (files : List (Nat × Nat)) (pl : Option (List PlateListRow)) (r2 r1 : String) (platein : Arg Nat)
    (p n : Nat) (hp : platein.toList = [p])
    (hnf : numberOfFibers (latestMjd files) pl r2 r1 [p] = .ok [n]) (mjd : Option Nat) (f : PlateFile α τ)
    (hm : mjd.getD (latestMjd files p) < 2 ^ 16) (hS : S p (mjd.getD (latestMjd files p)) = some f)
    (hn : 0 < n) (hnfib : n ≤ f.nfib)
    (hrect : ∀ h ∈ imgHdus, h ≠ 7 → ∀ r, r < f.nfib → (f.img h r).length = f.npix) :
    ∃ res, readspecX argsort S Z files pl r2 r1 platein (mjd.map Arg.scalar) none none = .ok res ∧
      res.imgs.length = imgHdus.length ∧
      (∀ (j h : Nat), imgHdus[j]? = some h → h ≠ 7 →
        ∃ im : Img α, res.imgs[j]? = some im ∧ im.npix = f.npix ∧ im.rows.length = n ∧
          ∀ i, i < n → im.rows[i]? = some (f.img h i)) ∧
      res.plug.length = n ∧ (∀ i, i < n → res.plug[i]? = some (f.plug i)) ∧
      (f.zans = none → res.zans = none) ∧
      (∀ t, f.zans = some t → ∃ l, res.zans = some l ∧ l.length = n ∧ ∀ i, i < n → l[i]? = some (t i)) ∧
      (f.tsobj = none → res.tsobj = none) ∧
      (∀ t, f.tsobj = some t → ∃ l, res.tsobj = some l ∧ l.length = n ∧ ∀ i, i < n → l[i]? = some (t i)) := by
  have D := domain_all_fibers S p _ n f hm hS hnfib hrect
  have hlen : (List.replicate n p).length = n := by simp
  have hrow : ∀ i, i < n →
      (((List.range n).map (fun (i : Nat) => (i : Int) + 1)).getD i 0 - 1).toNat = i := by
    intro i hi; rw [getD_fibers n i hi]; omega
  obtain ⟨res, w, h1, h2, ⟨i0, _, h3⟩, h4, h5⟩ := readspec_row_i argsort hA D (by simpa using hn)
  obtain ⟨res', t1, t2, t3, t4, t5, t6, t7⟩ := readspec_tables argsort hA D (by simpa using hn)
  have hres : res' = res := by rw [h1] at t1; exact (Except.ok.inj t1).symm
  subst hres
  subst h3
  rw [hlen] at h5 t2 t3 t5 t7
  refine ⟨res', ?_, h4, ?_, t2, ?_, ?_, ?_, ?_, ?_⟩
  · rw [readspec_all_fibers_requests argsort S Z files pl r2 r1 platein p n hp hnf mjd none, readspecCoreX_none]
    exact h1
  · intro j h hj h7
    obtain ⟨im, i1, i2, i3, i4⟩ := h5 j h hj h7
    refine ⟨im, i1, i2, i3, ?_⟩
    intro i hi
    rw [i4 i hi, hrow i hi]
    simp
  · intro i hi; rw [t3 i hi, hrow i hi]
  · intro hz; exact t4 (by simp [hz])
  · intro t ht
    obtain ⟨l, l1, l2, l3⟩ := t5 (fun _ => t) (by simp [ht])
    exact ⟨l, l1, l2, fun i hi => by rw [l3 i hi, hrow i hi]⟩
  · intro hz; exact t6 (by simp [hz])
  · intro t ht
    obtain ⟨l, l1, l2, l3⟩ := t7 (fun _ => t) (by simp [ht])
    exact ⟨l, l1, l2, fun i hi => by rw [l3 i hi, hrow i hi]⟩

end Ext

/-! ### `fiber=None`, several distinct plates -/

theorem insertU_perm (x : Nat) (l : List Nat) (h : x ∉ l) : (insertU x l).Perm (x :: l) := by
  induction l with
  | nil => simp [insertU]
  | cons y ys ih =>
    have hy : x ≠ y := fun e => h (by simp [e])
    have hys : x ∉ ys := fun e => h (by simp [e])
    simp only [insertU, if_neg hy]
    split
    · exact List.Perm.refl _
    · exact ((ih hys).cons y).trans (List.Perm.swap x y ys)

/-- np.unique of distinct values is a (sorted) permutation of them -/
theorem uniq_perm (l : List Nat) (h : l.Nodup) : (uniq l).Perm l := by
  induction l with
  | nil => exact List.Perm.refl _
  | cons y ys ih =>
    have hn := List.nodup_cons.mp h
    have : uniq (y :: ys) = insertU y (uniq ys) := rfl
    rw [this]
    exact (insertU_perm y _ (fun e => hn.1 ((mem_uniq y ys).mp e))).trans ((ih hn.2).cons y)

theorem uniq_const (v : Nat) (l : List Nat) (hne : l ≠ []) (h : ∀ x ∈ l, x = v) : uniq l = [v] := by
  induction l with
  | nil => contradiction
  | cons y ys ih =>
    have hy : y = v := h y (by simp)
    subst hy
    have : uniq (y :: ys) = insertU y (uniq ys) := rfl
    rw [this]
    cases ys with
    | nil => rfl
    | cons a as =>
      rw [ih (by simp) (fun x hx => h x (by simp [hx]))]
      simp [insertU]

theorem zip_map_self {β} (ps : List Nat) (nf : Nat → β) : ps.zip (ps.map nf) = ps.map (fun p => (p, nf p)) := by
  induction ps with
  | nil => rfl
  | cons p ps ih => simp [ih]

theorem countFor_map (ps : List Nat) (nf : Nat → Nat) (p : Nat) (hp : p ∈ ps) :
    countFor ps (ps.map nf) p = nf p := by
  unfold countFor
  rw [zip_map_self, uniq_const (nf p)]
  · rfl
  · intro he
    have : (p, nf p) ∈ (ps.map (fun p => (p, nf p))).filter (fun x => x.1 == p) := by
      simp only [List.mem_filter, List.mem_map, beq_self_eq_true, and_true]; exact ⟨p, hp, rfl⟩
    have := List.mem_map_of_mem (f := fun x : Nat × Nat => x.2) this
    rw [he] at this; cases this
  · intro x hx
    simp only [List.mem_map, List.mem_filter] at hx
    obtain ⟨a, ⟨⟨q, _, rfl⟩, ha⟩, rfl⟩ := hx
    have : q = p := by simpa using ha
    rw [this]

/-- PROPERTY.  What the requests are under `fiber=None` for a vector of DISTINCT plates (any order) whose fibre
counts are `nf p`: the plates in ascending order, for each plate the fibres 1..nf p in order, MJD = the latest of
the plate. -/
theorem normalizeAll_distinct (latest : Nat → Nat) (nfOf : List Nat → Except String (List Nat))
    (ps : List Nat) (nf : Nat → Nat) (hd : ps.Nodup) (hnf : nfOf ps = .ok (ps.map nf)) :
    normalizeAll latest nfOf (.vec ps) none
      = .ok ((uniq ps).flatMap (fun p => List.replicate (nf p) p),
             ((uniq ps).flatMap (fun p => List.replicate (nf p) p)).map latest,
             (uniq ps).flatMap (fun p => (List.range (nf p)).map (fun (i : Nat) => (i : Int) + 1))) := by
  have hblocks : (uniq ps).map (fun p => (p, countFor ps (ps.map nf) p)) = (uniq ps).map (fun p => (p, nf p)) := by
    apply List.map_congr_left
    intro p hp
    rw [countFor_map ps nf p ((mem_uniq p ps).mp hp)]
  have hsum : (ps.map nf).sum = ((uniq ps).map nf).sum := ((uniq_perm ps hd).map nf).sum_nat.symm
  have hl1 : ((uniq ps).flatMap (fun p => List.replicate (nf p) p)).length = ((uniq ps).map nf).sum := by
    simp [List.length_flatMap]
  have hl2 : ((uniq ps).flatMap (fun p => (List.range (nf p)).map (fun (i : Nat) => (i : Int) + 1))).length
      = ((uniq ps).map nf).sum := by
    simp [List.length_flatMap]
  simp only [normalizeAll, Arg.toList, hnf, hblocks, bind, Except.bind, pure, Except.pure,
    List.flatMap_map, hsum, hl1, hl2, Nat.sub_self, List.replicate_zero, List.append_nil]
  rw [bcast_same _ _ (by simp)]

/-- the request vectors of `fiber=None` for the (sorted, distinct) plates `us` with fibre counts `nf` -/
def allPlates (us : List Nat) (nf : Nat → Nat) : List Nat := us.flatMap (fun p => List.replicate (nf p) p)
def allFibers (us : List Nat) (nf : Nat → Nat) : List Int :=
  us.flatMap (fun p => (List.range (nf p)).map (fun (i : Nat) => (i : Int) + 1))

theorem allPlates_length (us : List Nat) (nf : Nat → Nat) : (allPlates us nf).length = (us.map nf).sum := by
  simp [allPlates, List.length_flatMap]

theorem allFibers_length (us : List Nat) (nf : Nat → Nat) : (allFibers us nf).length = (us.map nf).sum := by
  simp [allFibers, List.length_flatMap]

theorem getD_append_left' {β} (a b : List β) (i : Nat) (d : β) (h : i < a.length) : (a ++ b).getD i d = a.getD i d := by
  simp [List.getD_eq_getElem?_getD, List.getElem?_append_left h]

theorem getD_append_right' {β} (a b : List β) (i : Nat) (d : β) (h : a.length ≤ i) :
    (a ++ b).getD i d = b.getD (i - a.length) d := by
  simp [List.getD_eq_getElem?_getD, List.getElem?_append_right h]

/-- layout of the `fiber=None` request vectors: position i is (plate p, fibre j+1) for some plate p of the list and
some j < nf p (blocks in the order of the list, fibres ascending inside a block) -/
theorem all_fibers_layout (us : List Nat) (nf : Nat → Nat) (i : Nat) (hi : i < (allPlates us nf).length) :
    ∃ p ∈ us, ∃ j, j < nf p ∧ (allPlates us nf).getD i 0 = p ∧ (allFibers us nf).getD i 0 = (j : Int) + 1 := by
  induction us generalizing i with
  | nil => simp [allPlates] at hi
  | cons q rest ih =>
    have e1 : allPlates (q :: rest) nf = List.replicate (nf q) q ++ allPlates rest nf := by simp [allPlates]
    have e2 : allFibers (q :: rest) nf
        = (List.range (nf q)).map (fun (i : Nat) => (i : Int) + 1) ++ allFibers rest nf := by simp [allFibers]
    by_cases h : i < nf q
    · refine ⟨q, by simp, i, h, ?_, ?_⟩
      · rw [e1, getD_append_left' _ _ _ _ (by simpa using h), getD_replicate _ _ _ _ h]
      · rw [e2, getD_append_left' _ _ _ _ (by simpa using h), getD_fibers _ _ h]
    · have hi' : i - nf q < (allPlates rest nf).length := by
        rw [e1] at hi; simp at hi; omega
      obtain ⟨p, hp, j, hj, g1, g2⟩ := ih (i - nf q) hi'
      refine ⟨p, by simp [hp], j, hj, ?_, ?_⟩
      · rw [e1, getD_append_right' _ _ _ _ (by simp; omega)]; simpa using g1
      · rw [e2, getD_append_right' _ _ _ _ (by simp; omega)]; simpa using g2

section ExtPlates
variable {α τ : Type} [Scalar α]

omit [Scalar α] in
/-- the domain of "all fibres of several plates": `F p` is the file of plate p at its latest MJD -/
theorem domain_all_fibers_plates (S : Survey α τ) (latest : Nat → Nat) (us : List Nat) (nf : Nat → Nat)
    (F : Nat → PlateFile α τ) (ztP ttP : Option (Nat → Nat → τ))
    (hF : ∀ p ∈ us, latest p < 2 ^ 16 ∧ S p (latest p) = some (F p) ∧ nf p ≤ (F p).nfib ∧
      (∀ h ∈ imgHdus, h ≠ 7 → ∀ r, r < (F p).nfib → ((F p).img h r).length = (F p).npix) ∧
      (F p).zans = ztP.map (fun t => t p) ∧ (F p).tsobj = ttP.map (fun t => t p)) :
    Domain S (allPlates us nf) ((allPlates us nf).map latest) (allFibers us nf)
      (fun i => F ((allPlates us nf).getD i 0))
      (ztP.map (fun t i => t ((allPlates us nf).getD i 0))) (ttP.map (fun t i => t ((allPlates us nf).getD i 0))) := by
  have hm : ∀ i, i < (allPlates us nf).length →
      ((allPlates us nf).map latest).getD i 0 = latest ((allPlates us nf).getD i 0) := by
    intro i hi
    simp [List.getD_eq_getElem?_getD, List.getElem?_eq_getElem hi]
  refine ⟨by simp, by rw [allFibers_length, allPlates_length], ?_, ?_, ?_, ?_, ?_, ?_⟩
  · intro i hi
    obtain ⟨p, hp, j, hj, g1, g2⟩ := all_fibers_layout us nf i hi
    rw [hm i hi, g1]; exact (hF p hp).1
  · intro i hi
    obtain ⟨p, hp, j, hj, g1, g2⟩ := all_fibers_layout us nf i hi
    rw [hm i hi, g1]; exact (hF p hp).2.1
  · intro i hi
    obtain ⟨p, hp, j, hj, g1, g2⟩ := all_fibers_layout us nf i hi
    have := (hF p hp).2.2.1
    simp only [g1, g2]
    constructor <;> omega
  · intro i hi
    obtain ⟨p, hp, j, hj, g1, g2⟩ := all_fibers_layout us nf i hi
    simp only [g1]; exact (hF p hp).2.2.2.1
  · intro i hi
    obtain ⟨p, hp, j, hj, g1, g2⟩ := all_fibers_layout us nf i hi
    simp only [Option.map_map, Function.comp_def, g1]; exact (hF p hp).2.2.2.2.1
  · intro i hi
    obtain ⟨p, hp, j, hj, g1, g2⟩ := all_fibers_layout us nf i hi
    simp only [Option.map_map, Function.comp_def, g1]; exact (hF p hp).2.2.2.2.2

/-- PROPERTY.  `fiber=None` for a vector of DISTINCT plates (any order; counts `nf p` with `0 <` some count, files
`F p` at the latest MJD): readspec is readspec on the vectors `allPlates` / `allFibers` of the ascending plates, these
satisfy `Domain` - so `readspec_row_i`, `loglam_rows` and `readspec_tables` hold for it - and position i of the
request vector is (plate p, fibre j+1) as laid out by `all_fibers_layout`: plates ascending, fibres 1..nf p in order. -/
theorem readspec_all_fibers_plates (argsort : List Nat → List Nat) (S : Survey α τ) (Z : ZSurvey τ)
    (files : List (Nat × Nat)) (pl : Option (List PlateListRow)) (r2 r1 : String)
    (ps : List Nat) (nf : Nat → Nat) (F : Nat → PlateFile α τ) (ztP ttP : Option (Nat → Nat → τ)) (hd : ps.Nodup)
    (hnf : numberOfFibers (latestMjd files) pl r2 r1 ps = .ok (ps.map nf))
    (hF : ∀ p ∈ ps, latestMjd files p < 2 ^ 16 ∧ S p (latestMjd files p) = some (F p) ∧ nf p ≤ (F p).nfib ∧
      (∀ h ∈ imgHdus, h ≠ 7 → ∀ r, r < (F p).nfib → ((F p).img h r).length = (F p).npix) ∧
      (F p).zans = ztP.map (fun t => t p) ∧ (F p).tsobj = ttP.map (fun t => t p)) :
    readspecX argsort S Z files pl r2 r1 (.vec ps) none none none
      = readspecCore argsort S (allPlates (uniq ps) nf) ((allPlates (uniq ps) nf).map (latestMjd files))
          (allFibers (uniq ps) nf) ∧
    Domain S (allPlates (uniq ps) nf) ((allPlates (uniq ps) nf).map (latestMjd files)) (allFibers (uniq ps) nf)
      (fun i => F ((allPlates (uniq ps) nf).getD i 0))
      (ztP.map (fun t i => t ((allPlates (uniq ps) nf).getD i 0)))
      (ttP.map (fun t i => t ((allPlates (uniq ps) nf).getD i 0))) ∧
    (uniq ps).Pairwise (· < ·) ∧ (∀ p, p ∈ uniq ps ↔ p ∈ ps) := by
  refine ⟨?_, ?_, pairwise_uniq ps, fun p => mem_uniq p ps⟩
  · simp only [readspecX, normalizeAll_distinct (latestMjd files) _ ps nf hd hnf, readspecCoreX_none]
    rfl
  · exact domain_all_fibers_plates S (latestMjd files) (uniq ps) nf F ztP ttP
      (fun p hp => hF p ((mem_uniq p ps).mp hp))

end ExtPlates

/-! ## non-vacuity: the hypotheses are satisfiable by a non-trivial request -/

/-- a survey in which plate p (any MJD) has p+2 pixels, 3 fibres, no spZbest, a photoPlate table -/
def exFile (p : Nat) : PlateFile Rat Nat :=
  ⟨p + 2, 3, 35/10, 1/10000, fun h r => List.replicate (p + 2) ((h + 10 * r : Nat) : Rat), fun r => r, none,
    some (fun r => 100 + r)⟩

/-- four requests, scrambled: two plates, plate 3 at two MJDs, a repeated request, different pixel counts -/
example : Domain (fun p _ => some (exFile p)) [3, 1, 3, 1] [52000, 51999, 51000, 51999] [2, 1, 3, 1]
    (fun i => exFile ([3, 1, 3, 1].getD i 0)) none (some (fun _ r => 100 + r)) where
  len_mv := rfl
  len_fv := rfl
  mjd_lt := by decide
  file := fun _ _ => rfl
  fiber := by decide
  rect := by intro i _ h _ _ r _; simp [exFile]
  zans := fun _ _ => rfl
  tsobj := fun _ _ => rfl

example : IsArgsort argsortImpl := argsortImpl_isArgsort

/-- spZall of the example survey: 3 fibres x 2 fits, row (fibre-1)*2 + fit-1 -/
def exZ (p : Nat) : ZAll Nat := ⟨2, 6, fun r => 1000 * p + r⟩

/-- the same four scrambled requests with `znum=2` (spZall for every plate; the survey has no spZbest at all) -/
example : DomainZ (fun p _ => some (exFile p)) (fun p _ => some (exZ p)) 2 [3, 1, 3, 1] [52000, 51999, 51000, 51999]
    [2, 1, 3, 1] (fun i => exFile ([3, 1, 3, 1].getD i 0)) (some (fun i => exZ ([3, 1, 3, 1].getD i 0)))
    (some (fun _ r => 100 + r)) where
  len_mv := rfl
  len_fv := rfl
  mjd_lt := by decide
  file := fun _ _ => rfl
  fiber := by decide
  rect := by intro i _ h _ _ r _; simp [exFile]
  tsobj := fun _ _ => rfl
  zall := fun _ _ => rfl
  shape := by
    intro t ht i hi
    cases ht
    exact ⟨rfl, by decide, by simp [exZ]⟩

/-- `fiber=None`: the hypotheses of `readspec_all_fibers` are met by a BOSS plate with a platelist row (3 fibres) ... -/
example : numberOfFibers (latestMjd [(7, 56000), (7, 55900)])
    (some [⟨7, 56000, "x", "r1d", 9⟩, ⟨7, 56000, "r2d", "r1d", 3⟩]) "r2d" "r1d" [7] = .ok [3] := by rfl
/-- ... and by an SDSS-I/II plate (640 fibres, no platelist) -/
example : numberOfFibers (latestMjd [(266, 51630), (266, 51602)]) none "26" "" [266] = .ok [640] := by rfl
example : (exFile 7).nfib = 3 ∧ latestMjd [(7, 56000), (7, 55900)] 7 = 56000 := by decide
/-- two distinct plates in descending order: the hypothesis `hnf` of `readspec_all_fibers_plates` / `normalizeAll_distinct` -/
example : numberOfFibers (latestMjd [(7, 56000), (3, 56100)])
    (some [⟨3, 56100, "r2d", "r1d", 2⟩, ⟨7, 56000, "r2d", "r1d", 3⟩]) "r2d" "r1d" [7, 3]
      = .ok ([7, 3].map (fun p => if p == 7 then 3 else 2)) := by rfl
example : allPlates (uniq [7, 3]) (fun p => if p == 7 then 3 else 2) = [3, 3, 7, 7, 7] ∧
    allFibers (uniq [7, 3]) (fun p => if p == 7 then 3 else 2) = [1, 2, 1, 2, 3] := by decide


/-- spec_append of the repository test, positive and negative shift, evaluated by the model -/
example : (specAppend (0 : Int) ⟨3, [[1, 1, 1], [1, 1, 1]]⟩ ⟨3, [[2, 2, 2]]⟩ (-2)).rows
    = [[0, 0, 1, 1, 1], [0, 0, 1, 1, 1], [2, 2, 2, 0, 0]] := by decide
example : (specAppend (0 : Int) ⟨3, [[1, 1, 1], [1, 1, 1]]⟩ ⟨4, [[2, 2, 2, 2]]⟩ 1).rows
    = [[1, 1, 1, 0, 0], [1, 1, 1, 0, 0], [0, 2, 2, 2, 2]] := by decide


/-! ## extension 2: number_of_fibers for plate vectors, index wrap, error theorems, readspec over directory listings -/

/-- PROPERTY.  number_of_fibers for a plate VECTOR: 640 for every plate when every latest MJD is before 55025; as soon as ONE
plate is later, EVERY plate of the vector (the early ones too) gets N_TOTAL of its first platelist row under
(plate, latest MJD, run2d, run1d). -/
theorem numberOfFibers_vec (latest : Nat → Nat) (rows : List PlateListRow) (r2 r1 : String) (plates : List Nat) (nt : Nat → Nat) :
    ((∀ p ∈ plates, latest p < 55025) → ∀ pl, numberOfFibers latest pl r2 r1 plates = .ok (plates.map (fun _ => 640))) ∧
    ((∃ p ∈ plates, ¬ latest p < 55025) →
      (∀ p ∈ plates, ∃ r rest, rows.filter (fun r => r.plate == p && r.mjd == latest p && r.run2d == r2 && r.run1d == r1) = r :: rest
        ∧ r.ntotal = nt p) →
      numberOfFibers latest (some rows) r2 r1 plates = .ok (plates.map nt)) := by
  constructor
  · intro h pl
    have : (plates.map latest).all (· < 55025) = true := by
      simp only [List.all_map, List.all_eq_true, Function.comp, decide_eq_true_eq]
      exact h
    simp only [numberOfFibers, this, if_true, List.map_map]
    rfl
  · rintro ⟨p0, hp0, hlate⟩ hrows
    have : ¬ (plates.map latest).all (· < 55025) = true := by
      simp only [List.all_map, List.all_eq_true, Function.comp, decide_eq_true_eq]
      intro h
      exact hlate (h p0 hp0)
    simp only [numberOfFibers, this]
    apply mapM_ok
    intro p hp
    obtain ⟨r, rest, hf, hn⟩ := hrows p hp
    simp only [hf, hn]
    rfl

/-- PROPERTY.  The numpy index `fibre - 1` exactly: fibres 1..nfib are rows 0..nfib-1; fibre x with `-nfib < x ≤ 0` WRAPS to row
`nfib - 1 + x` (fibre 0 = the last row, fibre -1 = the row before it, ...); everything else is an IndexError. -/
theorem rowIndex_cases (nfib : Nat) (x : Int) :
    (1 ≤ x ∧ x ≤ nfib → rowIndex nfib x = some (x - 1).toNat) ∧
    (-(nfib : Int) < x ∧ x ≤ 0 → rowIndex nfib x = some ((nfib : Int) - 1 + x).toNat ∧ rowIndex nfib x = rowIndex nfib (x + nfib)) ∧
    (x ≤ -(nfib : Int) ∨ (nfib : Int) < x → rowIndex nfib x = none) := by
  refine ⟨?_, ?_, ?_⟩
  · intro h
    have : (0 : Int) ≤ x - 1 ∧ x - 1 < nfib := by omega
    simp only [rowIndex]
    rw [if_pos this]
  · intro h
    have n1 : ¬ ((0 : Int) ≤ x - 1 ∧ x - 1 < nfib) := by omega
    have n2 : x - 1 < 0 ∧ -(nfib : Int) ≤ x - 1 := by omega
    have n3 : (0 : Int) ≤ x + nfib - 1 ∧ x + nfib - 1 < nfib := by omega
    simp only [rowIndex]
    rw [if_neg n1, if_pos n2, if_pos n3]
    constructor
    · congr 1; omega
    · congr 1; omega
  · intro h
    have n1 : ¬ ((0 : Int) ≤ x - 1 ∧ x - 1 < nfib) := by omega
    have n2 : ¬ (x - 1 < 0 ∧ -(nfib : Int) ≤ x - 1) := by omega
    simp only [rowIndex]
    rw [if_neg n1, if_neg n2]

/-- PROPERTY.  The numpy index of `znum=k` exactly: with `q = (fibre-1)*nper + k - 1`, rows `0 ≤ q < nrows` are read as they are,
`-nrows ≤ q < 0` wraps to row `nrows + q` (e.g. fibre 1, znum 0 = the LAST row of the table), anything else is an IndexError.
In particular `znum = nper + 1` on fibre f silently reads fit 1 of fibre f+1 (q stays inside the table) unless f is the last. -/
theorem zIndex_cases {τ : Type} (z : ZAll τ) (k fiber : Int) :
    let q := (fiber - 1) * (z.nper : Int) + k - 1
    (0 ≤ q ∧ q < z.nrows → zIndex z k fiber = some q.toNat) ∧
    (-(z.nrows : Int) ≤ q ∧ q < 0 → zIndex z k fiber = some (q + z.nrows).toNat) ∧
    (q < -(z.nrows : Int) ∨ (z.nrows : Int) ≤ q → zIndex z k fiber = none) := by
  intro q
  refine ⟨?_, ?_, ?_⟩
  · intro h
    simp only [zIndex, npIndex]
    rw [if_pos h]
  · intro h
    have n1 : ¬ ((0 : Int) ≤ q ∧ q < z.nrows) := by omega
    have n2 : q < 0 ∧ -(z.nrows : Int) ≤ q := by omega
    simp only [zIndex, npIndex]
    rw [if_neg n1, if_pos n2]
  · intro h
    have n1 : ¬ ((0 : Int) ≤ q ∧ q < z.nrows) := by omega
    have n2 : ¬ (q < 0 ∧ -(z.nrows : Int) ≤ q) := by omega
    simp only [zIndex, npIndex]
    rw [if_neg n1, if_neg n2]

section Ext2
variable {α τ : Type} [Scalar α]

/-- the loop body looks at the fibre numbers only through the numpy row index -/
theorem step_congr_fiber (S : Survey α τ) (pv mv : List Nat) (fv fv' : List Int)
    (h : ∀ i, i < pv.length → ∀ f, S (pv.getD i 0) (mv.getD i 0) = some f →
      rowIndex f.nfib (fv.getD i 0) = rowIndex f.nfib (fv'.getD i 0))
    (st : Option (Acc α τ)) (u : Nat) : step S pv mv fv st u = step S pv mv fv' st u := by
  simp only [step]
  cases hS : S (u >>> 16) (u &&& ((1 <<< 16) - 1)) with
  | none => rfl
  | some f =>
    have hrow : ∀ i ∈ idxOf pv mv u, rowIndex f.nfib (fv.getD i 0) = rowIndex f.nfib (fv'.getD i 0) := by
      intro i hi
      obtain ⟨h1, h2, h3⟩ := (mem_idxOf u i).mp hi
      exact h i h1 f (by rw [h2, h3]; exact hS)
    have e1 : ((idxOf pv mv u).map (fun i => fv.getD i 0)).all (fun x => (rowIndex f.nfib x).isSome)
        = ((idxOf pv mv u).map (fun i => fv'.getD i 0)).all (fun x => (rowIndex f.nfib x).isSome) := by
      rw [Bool.eq_iff_iff]
      simp only [List.all_eq_true, List.mem_map]
      constructor
      · rintro H x ⟨i, hi, rfl⟩
        rw [← hrow i hi]; exact H _ ⟨i, hi, rfl⟩
      · rintro H x ⟨i, hi, rfl⟩
        rw [hrow i hi]; exact H _ ⟨i, hi, rfl⟩
    have e2 : ((idxOf pv mv u).map (fun i => fv.getD i 0)).map (fun x => (rowIndex f.nfib x).getD 0)
        = ((idxOf pv mv u).map (fun i => fv'.getD i 0)).map (fun x => (rowIndex f.nfib x).getD 0) := by
      rw [List.map_map, List.map_map]
      apply List.map_congr_left
      intro i hi
      simp only [Function.comp, hrow i hi]
    simp only [e1, e2]

/-- PROPERTY (fibre ≤ 0, stated exactly).  A request vector `fv` in which some fibres are `≤ 0` but inside the wrap range
(`-nfib_i < x_i ≤ 0`) returns EXACTLY what the request with those fibres replaced by `x_i + nfib_i` returns: fibre 0 is the last
fibre of the plate, fibre -1 the one before.  So `readspec_row_i` / `readspec_tables` applied to the replaced vector say which
rows come back.  (The property statement speaks about "requested spectra"; fibre ≤ 0 names no spectrum - this is OUTSIDE the
statement, the theorem only pins the behaviour down.) -/
theorem readspec_fiber_wrap (argsort : List Nat → List Nat) (S : Survey α τ) (pv mv : List Nat) (fv : List Int)
    (nf : Nat → Nat) (hnf : ∀ i, i < pv.length → ∀ f, S (pv.getD i 0) (mv.getD i 0) = some f → f.nfib = nf i)
    (hw : ∀ i, i < pv.length → (1 ≤ fv.getD i 0) ∨ (-(nf i : Int) < fv.getD i 0 ∧ fv.getD i 0 ≤ 0)) :
    readspecCore argsort S pv mv fv = readspecCore argsort S pv mv
      ((List.range fv.length).map (fun i => if fv.getD i 0 ≤ 0 then fv.getD i 0 + nf i else fv.getD i 0)) := by
  unfold readspecCore
  have : step S pv mv fv = step S pv mv
      ((List.range fv.length).map (fun i => if fv.getD i 0 ≤ 0 then fv.getD i 0 + nf i else fv.getD i 0)) := by
    funext st u
    apply step_congr_fiber
    intro i hi f hf
    by_cases hlen : i < fv.length
    · have e : ((List.range fv.length).map (fun i => if fv.getD i 0 ≤ 0 then fv.getD i 0 + nf i else fv.getD i 0)).getD i 0
          = if fv.getD i 0 ≤ 0 then fv.getD i 0 + nf i else fv.getD i 0 := by
        simp [List.getD_eq_getElem?_getD, List.getElem?_range hlen]
      rw [e]
      rcases hw i hi with h1 | h1
      · rw [if_neg (by omega)]
      · rw [if_pos h1.2, hnf i hi f hf]
        exact ((rowIndex_cases (nf i) (fv.getD i 0)).2.1 h1).2
    · have e0 : fv.getD i 0 = 0 := by simp [List.getD_eq_getElem?_getD, List.getElem?_eq_none (Nat.le_of_not_lt hlen)]
      have e : ((List.range fv.length).map (fun i => if fv.getD i 0 ≤ 0 then fv.getD i 0 + nf i else fv.getD i 0)).getD i 0 = 0 := by
        simp [List.getD_eq_getElem?_getD, Nat.le_of_not_lt hlen]
      rw [e, e0]
  rw [this]

theorem foldlM_error_of_mem {β γ : Type} (f : β → γ → Except String β) (l : List γ) (u : γ) (hu : u ∈ l)
    (hf : ∀ b, ∃ e, f b u = .error e) (b : β) : ∃ e, l.foldlM f b = .error e := by
  induction l generalizing b with
  | nil => cases hu
  | cons x xs ih =>
    rw [List.foldlM_cons]
    cases hx : f b x with
    | error e => exact ⟨e, rfl⟩
    | ok b' =>
      rcases List.mem_cons.mp hu with h | h
      · subst h
        obtain ⟨e, he⟩ := hf b
        rw [he] at hx
        cases hx
      · exact ih h b'

/-- PROPERTY (error theorem).  If ONE request names a plate-MJD without an spPlate file, readspec returns nothing: it raises
(FileNotFoundError from `fits.open`, or an earlier IndexError of another file), whatever the other requests are, for any
`znum`.  No partial result, no row of another file in its place. -/
theorem readspec_missing_file_raises (argsort : List Nat → List Nat) (S : Survey α τ) (Z : ZSurvey τ) (znum : Option Int)
    (pv mv : List Nat) (fv : List Int) (hlen : mv.length = pv.length) (i0 : Nat) (h0 : i0 < pv.length)
    (hm : mv.getD i0 0 < 2 ^ 16) (hS : S (pv.getD i0 0) (mv.getD i0 0) = none) :
    ∃ e, readspecCoreX argsort S Z znum pv mv fv = .error e := by
  simp only [readspecCoreX]
  have hu : key (pv.getD i0 0) (mv.getD i0 0) ∈ uniq (List.zipWith key pv mv) := (mem_keys hlen _).mpr ⟨i0, h0, rfl⟩
  have hd := key_decode (pv.getD i0 0) (mv.getD i0 0) hm
  obtain ⟨e, he⟩ := foldlM_error_of_mem (stepX S Z znum pv mv fv) _ _ hu (by
    intro b
    refine ⟨"FileNotFoundError", ?_⟩
    unfold stepX
    simp only [hd.1, hd.2, hS]
    rfl) none
  exact ⟨e, by simp only [he] <;> rfl⟩

omit [Scalar α] in
/-- PROPERTY (error theorem, the reorder step).  When an accumulated table (zans / tsobj: some plate-MJDs had the spZbest /
spZall / photoPlate file, others not - "mixed availability") has FEWER rows than there are requests, the final reorder
`x[j]` with `j = allpmjdindex.argsort()` raises IndexError for ANY argsort: nothing is returned, no row is silently shifted
to another request. -/
theorem finish_short_table_raises (argsort : List Nat → List Nat) (hA : IsArgsort argsort) (a : Acc α τ)
    (h : (∃ l, a.zans = some l ∧ l.length < a.allidx.length) ∨ (∃ l, a.tsobj = some l ∧ l.length < a.allidx.length)) :
    ∃ e, finish argsort a = .error e := by
  have hperm := (hA a.allidx).1
  have hbig : ∀ l : List τ, l.length < a.allidx.length → gather l (argsort a.allidx) = .error "IndexError" := by
    intro l hl
    unfold gather
    have : ¬ ((argsort a.allidx).all (· < l.length) = true) := by
      intro hall
      rw [List.all_eq_true] at hall
      have hmem : l.length ∈ argsort a.allidx := hperm.mem_iff.mpr (List.mem_range.mpr hl)
      have := hall _ hmem
      simp at this
    rw [if_neg this]
    rfl
  simp only [finish]
  cases h1 : a.imgs.mapM (fun s => do pure (⟨s.npix, ← gather s.rows (argsort a.allidx)⟩ : Img α)) with
  | error e => exact ⟨e, rfl⟩
  | ok imgs =>
    cases h2 : gather a.plug (argsort a.allidx) with
    | error e => exact ⟨e, rfl⟩
    | ok plug =>
      rcases h with ⟨l, hl, hlt⟩ | ⟨l, hl, hlt⟩
      · refine ⟨"IndexError", ?_⟩
        simp [hl, gatherOpt, hbig l hlt, bind, Except.bind]
      · cases h3 : gatherOpt a.zans (argsort a.allidx) with
        | error e => exact ⟨e, rfl⟩
        | ok z =>
          refine ⟨"IndexError", ?_⟩
          simp [hl, gatherOpt, hbig l hlt, bind, Except.bind]

end Ext2

/-! ### readspec over directory listings (Model/SpecFiles.lean) -/

section FS
variable {α τ : Type} [Scalar α]

/-- the survey that a directory holding the spPlate files `files` with contents `content` IS -/
def surveyOfFiles (files : List (Nat × Nat)) (content : List Char → PlateFile α τ) : Survey α τ :=
  fun p m => if (p, m) ∈ files then some (content (specFileName p m)) else none

/-- a directory entry that the glob of no plate picks: other kinds of files (spZbest-…, photoPlate-…, platelist.fits),
sub-directories, names with other extensions -/
def NoGlob (name : List Char) : Prop := ∀ plate, globMatch plate name = false

omit [Scalar α] in
theorem surveyOfListing_eq (files : List (Nat × Nat)) (junk : List (List Char)) (hj : ∀ n ∈ junk, NoGlob n)
    (content : List Char → PlateFile α τ) :
    surveyOfListing (listingOf files ++ junk) content = surveyOfFiles files content := by
  funext p m
  unfold surveyOfListing surveyOfFiles
  have : specFileName p m ∈ listingOf files ++ junk ↔ (p, m) ∈ files := by
    rw [List.mem_append]
    constructor
    · rintro (h | h)
      · simp only [listingOf, List.mem_map] at h
        obtain ⟨f, hf, he⟩ := h
        have := specFileName_injective _ _ _ _ he
        rw [← this.1, ← this.2]; exact hf
      · have h1 := hj _ h p
        rw [(globMatch_specFileName p p m).mpr rfl] at h1
        cases h1
    · intro h
      left
      simp only [listingOf, List.mem_map]
      exact ⟨_, h, rfl⟩
  simp only [this]

theorem latestMjdFS_junk (dir : List Char) (hP : 'P' ∉ dir) (files : List (Nat × Nat)) (hm : ∀ f ∈ files, f.2 < 100000)
    (junk : List (List Char)) (hj : ∀ n ∈ junk, NoGlob n) (plate : Nat) :
    latestMjdFS dir (listingOf files ++ junk) plate = .ok (latestMjd files plate) := by
  rw [latestMjdFS_ignores_unmatched, List.filter_append]
  have : junk.filter (globMatch plate) = [] := by
    rw [List.filter_eq_nil_iff]
    intro n hn
    rw [hj n hn plate]
    exact Bool.false_ne_true
  rw [this, List.append_nil, ← latestMjdFS_ignores_unmatched]
  exact latestMjdFS_eq_latestMjd dir plate hP files hm

/-- PROPERTY (end to end, part 1).  readspec on a DIRECTORY LISTING - names formed with zero padding, latest MJD found by glob +
regular expression, files opened by name - is the abstract `readspec` on the survey `surveyOfFiles`, for every calling
convention, every plate (≥ 10000 included), any order of the listing's spPlate part, decoy plates and other entries present. -/
theorem readspecFS_eq_readspec (argsort : List Nat → List Nat) (dir : List Char) (hP : 'P' ∉ dir)
    (files : List (Nat × Nat)) (hm : ∀ f ∈ files, f.2 < 100000) (junk : List (List Char)) (hj : ∀ n ∈ junk, NoGlob n)
    (content : List Char → PlateFile α τ) (platein : Arg Nat) (mjd : Option (Arg Nat)) (fiber : Arg Int) :
    readspecFS argsort dir (listingOf files ++ junk) content platein mjd fiber
      = readspec argsort (surveyOfFiles files content) files platein mjd fiber := by
  have hl : ∀ p, latestMjdFS dir (listingOf files ++ junk) p = .ok (latestMjd files p) :=
    latestMjdFS_junk dir hP files hm junk hj
  have hmap : platein.toList.mapM (latestMjdFS dir (listingOf files ++ junk)) = .ok (platein.toList.map (latestMjd files)) :=
    mapM_ok _ _ _ (fun p _ => hl p)
  have hlat : latestOf (fun _ => listingOf files ++ junk) dir = latestMjd files := by
    funext p
    simp only [latestOf, hl p]
  have hcore : readspecFS argsort dir (listingOf files ++ junk) content platein mjd fiber
      = readspecFSCore argsort dir (listingOf files ++ junk) content platein mjd fiber := by
    unfold readspecFS
    rw [hmap]
    cases mjd <;> rfl
  rw [hcore]
  unfold readspecFSCore readspec
  rw [hlat, surveyOfListing_eq files junk hj content]

/-- PROPERTY (end to end, part 2 = `readspec_row_i` about file listings).  A directory `dir` holds the spPlate files `files`
(their names are `spPlate-pppp-mmmmm.fits` with AT LEAST 4 plate digits) among other entries.  For EVERY request vector whose
(plate_i, mjd_i) are among the files and whose fibres exist (`Domain` on `surveyOfFiles`): readspec on the listing succeeds and
row i of every image HDU is row `fibre_i - 1` of the file NAMED `spPlate-{plate_i:04d}-{mjd_i:05d}.fits`, zero-padded on the
right to the longest pixel count, never shifted - and two different (plate, MJD) never name the same file
(`specFileName_injective`), so no request can receive another plate's rows through a shared or mis-globbed name. -/
theorem readspec_row_i_listing (argsort : List Nat → List Nat) (hA : IsArgsort argsort) (dir : List Char) (hP : 'P' ∉ dir)
    (files : List (Nat × Nat)) (hm : ∀ f ∈ files, f.2 < 100000) (junk : List (List Char)) (hj : ∀ n ∈ junk, NoGlob n)
    (content : List Char → PlateFile α τ) (pv mv : List Nat) (fv : List Int) (fl : Nat → PlateFile α τ)
    (zt tt : Option (Nat → Nat → τ))
    (D : Domain (surveyOfFiles files content) pv mv fv fl zt tt) (hn : 0 < pv.length) :
    (∀ i, i < pv.length → fl i = content (specFileName (pv.getD i 0) (mv.getD i 0)) ∧ (pv.getD i 0, mv.getD i 0) ∈ files) ∧
    ∃ res w, readspecFS argsort dir (listingOf files ++ junk) content (.vec pv) (some (.vec mv)) (.vec fv) = .ok res ∧
      (∀ i, i < pv.length → (fl i).npix ≤ w) ∧ (∃ i, i < pv.length ∧ (fl i).npix = w) ∧
      res.imgs.length = imgHdus.length ∧
      ∀ (k h : Nat), imgHdus[k]? = some h → h ≠ 7 →
        ∃ im : Img α, res.imgs[k]? = some im ∧ im.npix = w ∧ im.rows.length = pv.length ∧
          ∀ i, i < pv.length → im.rows[i]? =
            some ((content (specFileName (pv.getD i 0) (mv.getD i 0))).img h ((fv.getD i 0 - 1).toNat)
              ++ List.replicate (w - (fl i).npix) zero) := by
  have hfl : ∀ i, i < pv.length → fl i = content (specFileName (pv.getD i 0) (mv.getD i 0)) ∧ (pv.getD i 0, mv.getD i 0) ∈ files := by
    intro i hi
    have := D.file i hi
    unfold surveyOfFiles at this
    split at this
    · rename_i hmem
      exact ⟨(Option.some.inj this).symm, hmem⟩
    · cases this
  refine ⟨hfl, ?_⟩
  obtain ⟨res, w, h1, h2, h3, h4, h5⟩ := readspec_row_i argsort hA D hn
  refine ⟨res, w, ?_, h2, h3, h4, ?_⟩
  · rw [readspecFS_eq_readspec argsort dir hP files hm junk hj, readspec_vec argsort _ files pv mv fv D.len_mv D.len_fv hn]
    exact h1
  · intro k h hk h7
    obtain ⟨im, i1, i2, i3, i4⟩ := h5 k h hk h7
    refine ⟨im, i1, i2, i3, ?_⟩
    intro i hi
    rw [i4 i hi, (hfl i hi).1]

/-- PROPERTY (end to end, `mjd=None`).  With `mjd=None` the request vector readspec works on has, for every plate, the LARGEST
MJD among the names `spPlate-{plate:04d}-*.fits` of the listing (decoys ignored): readspec on the listing is `readspecCore` on
`(pv, pv.map (latestMjd files), fv)`, to which the row theorems apply. -/
theorem readspec_latest_listing (argsort : List Nat → List Nat) (dir : List Char) (hP : 'P' ∉ dir)
    (files : List (Nat × Nat)) (hm : ∀ f ∈ files, f.2 < 100000) (junk : List (List Char)) (hj : ∀ n ∈ junk, NoGlob n)
    (content : List Char → PlateFile α τ) (pv : List Nat) (fv : List Int) (h2 : fv.length = pv.length) (hn : 0 < pv.length) :
    readspecFS argsort dir (listingOf files ++ junk) content (.vec pv) none (.vec fv)
      = readspecCore argsort (surveyOfFiles files content) pv (pv.map (latestMjd files)) fv ∧
    ∀ p, (∀ m, (p, m) ∈ files → m ≤ latestMjd files p) ∧ (latestMjd files p = 0 ∨ (p, latestMjd files p) ∈ files) := by
  refine ⟨?_, fun p => latestMjd_spec files p⟩
  rw [readspecFS_eq_readspec argsort dir hP files hm junk hj]
  simp only [readspec, normalize_latest (latestMjd files) pv fv h2 hn]
  rfl

/-- PROPERTY (end to end).  Under the plain vector convention readspec on a listing IS `readspecCore` on the survey of the listed
files - so every theorem about `readspecCore` (`loglam_rows`, `readspec_tables`, the `_znum` family through `readspecX_plain`)
speaks about directory listings. -/
theorem readspecFS_vec (argsort : List Nat → List Nat) (dir : List Char) (hP : 'P' ∉ dir)
    (files : List (Nat × Nat)) (hm : ∀ f ∈ files, f.2 < 100000) (junk : List (List Char)) (hj : ∀ n ∈ junk, NoGlob n)
    (content : List Char → PlateFile α τ) (pv mv : List Nat) (fv : List Int)
    (h1 : mv.length = pv.length) (h2 : fv.length = pv.length) (hn : 0 < pv.length) :
    readspecFS argsort dir (listingOf files ++ junk) content (.vec pv) (some (.vec mv)) (.vec fv)
      = readspecCore argsort (surveyOfFiles files content) pv mv fv := by
  rw [readspecFS_eq_readspec argsort dir hP files hm junk hj, readspec_vec argsort _ files pv mv fv h1 h2 hn]

/-- PROPERTY (end to end, wavelengths and tables over listings): `loglam_rows` and `readspec_tables` for readspec on a listing -
loglam row i is `COEFF0 + COEFF1*p` of the file NAMED for request i (zeros in the padding); plug-map / zans / tsobj row i is row
`fibre_i - 1` of that file's table; zans / tsobj are returned exactly when the files have them. -/
theorem readspec_tables_loglam_listing (argsort : List Nat → List Nat) (hA : IsArgsort argsort) (dir : List Char) (hP : 'P' ∉ dir)
    (files : List (Nat × Nat)) (hm : ∀ f ∈ files, f.2 < 100000) (junk : List (List Char)) (hj : ∀ n ∈ junk, NoGlob n)
    (content : List Char → PlateFile α τ) (pv mv : List Nat) (fv : List Int) (fl : Nat → PlateFile α τ)
    (zt tt : Option (Nat → Nat → τ))
    (D : Domain (surveyOfFiles files content) pv mv fv fl zt tt) (hn : 0 < pv.length) :
    ∃ res w, readspecFS argsort dir (listingOf files ++ junk) content (.vec pv) (some (.vec mv)) (.vec fv) = .ok res ∧
      (∃ im : Img α, res.imgs[6]? = some im ∧ im.npix = w ∧ im.rows.length = pv.length ∧
        ∀ i, i < pv.length → im.rows[i]? =
          some ((List.range (fl i).npix).map (fun p => (fl i).c0 + (fl i).c1 * Scalar.ofNat p)
            ++ List.replicate (w - (fl i).npix) zero)) ∧
      res.plug.length = pv.length ∧
      (∀ i, i < pv.length → res.plug[i]? = some ((fl i).plug ((fv.getD i 0 - 1).toNat))) ∧
      (zt = none → res.zans = none) ∧
      (∀ t, zt = some t → ∃ l, res.zans = some l ∧ l.length = pv.length ∧
        ∀ i, i < pv.length → l[i]? = some (t i ((fv.getD i 0 - 1).toNat))) ∧
      (tt = none → res.tsobj = none) ∧
      (∀ t, tt = some t → ∃ l, res.tsobj = some l ∧ l.length = pv.length ∧
        ∀ i, i < pv.length → l[i]? = some (t i ((fv.getD i 0 - 1).toNat))) := by
  obtain ⟨res, w, h1, _, _, h4⟩ := loglam_rows argsort hA D hn
  obtain ⟨res', g1, g2, g3, g4, g5, g6, g7⟩ := readspec_tables argsort hA D hn
  have : res' = res := by
    rw [h1] at g1
    exact (Except.ok.inj g1).symm
  subst this
  refine ⟨res', w, ?_, h4, g2, g3, g4, g5, g6, g7⟩
  rw [readspecFS_vec argsort dir hP files hm junk hj content pv mv fv D.len_mv D.len_fv hn]
  exact h1

end FS

theorem sum_insertU (nf : Nat → Nat) (x : Nat) (l : List Nat) (h : l.Pairwise (· < ·)) :
    ((insertU x l).map nf).sum = if x ∈ l then (l.map nf).sum else nf x + (l.map nf).sum := by
  induction l with
  | nil => simp [insertU]
  | cons y ys ih =>
    have hy := List.pairwise_cons.mp h
    simp only [insertU]
    by_cases h1 : x < y
    · rw [if_pos h1]
      have hn : x ∉ y :: ys := by
        intro hm
        rcases List.mem_cons.mp hm with e | e
        · omega
        · have := hy.1 x e; omega
      rw [if_neg hn]
      simp
    · rw [if_neg h1]
      by_cases h2 : x = y
      · rw [if_pos h2]; subst h2; simp
      · rw [if_neg h2]
        simp only [List.map_cons, List.sum_cons, ih hy.2, List.mem_cons, h2, false_or]
        split <;> omega

theorem sum_uniq_le (nf : Nat → Nat) (ps : List Nat) : ((uniq ps).map nf).sum ≤ (ps.map nf).sum := by
  induction ps with
  | nil => simp [uniq]
  | cons x xs ih =>
    have : uniq (x :: xs) = insertU x (uniq xs) := rfl
    rw [this, sum_insertU nf x _ (pairwise_uniq xs)]
    simp only [List.map_cons, List.sum_cons]
    split <;> omega

/-- `np.unique` drops fibres: with a repeated plate the filled part is shorter than `total_fibers` -/
theorem sum_uniq_lt (nf : Nat → Nat) (ps : List Nat) (hd : ¬ ps.Nodup) (hpos : ∀ p ∈ ps, 0 < nf p) :
    ((uniq ps).map nf).sum < (ps.map nf).sum := by
  induction ps with
  | nil => exact absurd List.nodup_nil hd
  | cons x xs ih =>
    have : uniq (x :: xs) = insertU x (uniq xs) := rfl
    rw [this, sum_insertU nf x _ (pairwise_uniq xs)]
    simp only [List.map_cons, List.sum_cons]
    have hx := hpos x (by simp)
    have hle := sum_uniq_le nf xs
    by_cases hm : x ∈ xs
    · rw [if_pos ((mem_uniq x xs).mpr hm)]; omega
    · rw [if_neg (fun h => hm ((mem_uniq x xs).mp h))]
      have hd' : ¬ xs.Nodup := fun h => hd (List.nodup_cons.mpr ⟨hm, h⟩)
      have := ih hd' (fun p hp => hpos p (by simp [hp]))
      omega

section Ext3
variable {α τ : Type} [Scalar α]

/-- PROPERTY (error theorem, `fiber=None` with REPEATED plates).  `platevec = np.zeros(total_fibers)` is filled once per DISTINCT
plate, so with a repeated plate the tail stays plate 0 / fibre 0; readspec then looks for the spPlate file of plate 0 at
`latest_mjd(0)` and raises - nothing is returned.  This form has the gap between `total_fibers` and the filled part as the
hypothesis `hgap`; `sum_uniq_lt` proves it for every vector with a repeated plate (`readspec_all_fibers_dup_raises` below). -/
theorem readspec_all_fibers_unfilled_raises (argsort : List Nat → List Nat) (S : Survey α τ) (Z : ZSurvey τ)
    (files : List (Nat × Nat)) (pl : Option (List PlateListRow)) (r2 r1 : String) (ps : List Nat) (nf : Nat → Nat)
    (znum : Option Int)
    (hnf : numberOfFibers (latestMjd files) pl r2 r1 ps = .ok (ps.map nf))
    (hgap : ((uniq ps).map nf).sum < (ps.map nf).sum)
    (h0 : S 0 (latestMjd files 0) = none) (hl : latestMjd files 0 < 2 ^ 16) :
    ∃ e, readspecX argsort S Z files pl r2 r1 (.vec ps) none none znum = .error e := by
  have hblocks : (uniq ps).map (fun p => (p, countFor ps (ps.map nf) p)) = (uniq ps).map (fun p => (p, nf p)) := by
    apply List.map_congr_left
    intro p hp
    rw [countFor_map ps nf p ((mem_uniq p ps).mp hp)]
  have hl1 : ((uniq ps).flatMap (fun p => List.replicate (nf p) p)).length = ((uniq ps).map nf).sum := by
    simp [List.length_flatMap]
  have hl2 : ((uniq ps).flatMap (fun p => (List.range (nf p)).map (fun (i : Nat) => (i : Int) + 1))).length
      = ((uniq ps).map nf).sum := by
    simp [List.length_flatMap]
  have hnorm : normalizeAll (latestMjd files) (numberOfFibers (latestMjd files) pl r2 r1) (.vec ps) none
      = .ok ((uniq ps).flatMap (fun p => List.replicate (nf p) p) ++ List.replicate ((ps.map nf).sum - ((uniq ps).map nf).sum) 0,
             ((uniq ps).flatMap (fun p => List.replicate (nf p) p) ++ List.replicate ((ps.map nf).sum - ((uniq ps).map nf).sum) 0).map (latestMjd files),
             (uniq ps).flatMap (fun p => (List.range (nf p)).map (fun (i : Nat) => (i : Int) + 1))
               ++ List.replicate ((ps.map nf).sum - ((uniq ps).map nf).sum) 0) := by
    simp only [normalizeAll, Arg.toList, hnf, hblocks, bind, Except.bind, pure, Except.pure,
      List.flatMap_map, hl1, hl2]
    rw [bcast_same _ _ (by simp)]
  have hPV : ((uniq ps).flatMap (fun p => List.replicate (nf p) p)
      ++ List.replicate ((ps.map nf).sum - ((uniq ps).map nf).sum) 0)[((uniq ps).map nf).sum]? = some 0 := by
    rw [List.getElem?_append_right (by omega), hl1, List.getElem?_replicate]
    simp only [Nat.sub_self]
    rw [if_pos (by omega)]
  have := readspec_missing_file_raises argsort S Z znum
    ((uniq ps).flatMap (fun p => List.replicate (nf p) p) ++ List.replicate ((ps.map nf).sum - ((uniq ps).map nf).sum) 0)
    (((uniq ps).flatMap (fun p => List.replicate (nf p) p) ++ List.replicate ((ps.map nf).sum - ((uniq ps).map nf).sum) 0).map (latestMjd files))
    ((uniq ps).flatMap (fun p => (List.range (nf p)).map (fun (i : Nat) => (i : Int) + 1))
               ++ List.replicate ((ps.map nf).sum - ((uniq ps).map nf).sum) 0)
    (by simp) (((uniq ps).map nf).sum)
    (by simp only [List.length_append, hl1, List.length_replicate]; omega)
    (by simp only [List.getD_eq_getElem?_getD, List.getElem?_map, hPV, Option.map_some, Option.getD_some]; exact hl)
    (by simp only [List.getD_eq_getElem?_getD, List.getElem?_map, hPV, Option.map_some, Option.getD_some]; exact h0)
  obtain ⟨e, he⟩ := this
  refine ⟨e, ?_⟩
  simp only [readspecX, hnorm]
  exact he

/-- PROPERTY (error theorem, `fiber=None` with REPEATED plates, full).  For EVERY plate vector that is not duplicate-free and whose
plates have fibres (`nf p > 0`), any `znum`: readspec raises (no plate-0 file at `latest_mjd(0)`), nothing is returned. -/
theorem readspec_all_fibers_dup_raises (argsort : List Nat → List Nat) (S : Survey α τ) (Z : ZSurvey τ)
    (files : List (Nat × Nat)) (pl : Option (List PlateListRow)) (r2 r1 : String) (ps : List Nat) (nf : Nat → Nat)
    (znum : Option Int)
    (hnf : numberOfFibers (latestMjd files) pl r2 r1 ps = .ok (ps.map nf))
    (hdup : ¬ ps.Nodup) (hpos : ∀ p ∈ ps, 0 < nf p)
    (h0 : S 0 (latestMjd files 0) = none) (hl : latestMjd files 0 < 2 ^ 16) :
    ∃ e, readspecX argsort S Z files pl r2 r1 (.vec ps) none none znum = .error e :=
  readspec_all_fibers_unfilled_raises argsort S Z files pl r2 r1 ps nf znum hnf (sum_uniq_lt nf ps hdup hpos) h0 hl

end Ext3

/-- PROPERTY (error theorem).  A name that the plate's glob picks but in which the regular expression finds no MJD
(`spPlate-0266-final.fits`, a 4- or 6-digit MJD, ...) makes latest_mjd raise AttributeError, wherever it stands in the listing
and whatever else is there: no MJD is made up for it, and it is not skipped. -/
theorem latestMjdFS_malformed_raises (dir : List Char) (listing : List (List Char)) (plate : Nat) (name : List Char)
    (hmem : name ∈ listing) (hg : globMatch plate name = true) (hre : reSearch (dir ++ '/' :: name) = none) :
    latestMjdFS dir listing plate = .error "AttributeError" := by
  unfold latestMjdFS
  generalize (0 : Nat) = big
  induction listing generalizing big with
  | nil => cases hmem
  | cons x xs ih =>
    rw [List.foldlM_cons]
    by_cases hx : globMatch plate x = true
    · rw [if_pos hx]
      cases hs : reSearch (dir ++ '/' :: x) with
      | none => rfl
      | some m =>
        rcases List.mem_cons.mp hmem with h | h
        · subst h; rw [hre] at hs; cases hs
        · simp only [pure_bind]
          exact ih h _
    · rw [if_neg hx, pure_bind]
      rcases List.mem_cons.mp hmem with h | h
      · subst h; exact absurd hg hx
      · exact ih h _

example : ((uniq [7, 7]).map (fun _ => 3)).sum < ([7, 7].map (fun _ => 3)).sum := by decide

section Mixed
variable {α τ : Type} [Scalar α]

/-- number of request positions read so far / rows of one accumulated table / "the table's key exists" -/
def alen (st : Option (Acc α τ)) : Nat := match st with | none => 0 | some a => a.allidx.length
def tlen (accT : Acc α τ → Option (List τ)) (st : Option (Acc α τ)) : Nat := ((st.bind accT).getD []).length

/-- one pass of the loop: the file exists, `allpmjdindex` grows by the number of requests of the key, the table grows by the
same number when the file has the table and not at all when it has not -/
theorem step_table (get : PlateFile α τ → Option (Nat → τ)) (accT : Acc α τ → Option (List τ))
    (hacc : ∀ f idx rows st, accT (stepOk f idx rows st) = catOpt (st.bind accT) ((get f).map (fun t => rows.map t)))
    (S : Survey α τ) (pv mv : List Nat) (fv : List Int) (st st' : Option (Acc α τ)) (u : Nat)
    (h : step S pv mv fv st u = .ok st') :
    ∃ f, S (u >>> 16) (u &&& ((1 <<< 16) - 1)) = some f ∧ alen st' = alen st + (idxOf pv mv u).length ∧
      (get f = none → tlen accT st' = tlen accT st ∧ ((st.bind accT).isSome → (st'.bind accT).isSome)) ∧
      ((get f).isSome → tlen accT st' = tlen accT st + (idxOf pv mv u).length ∧ (st'.bind accT).isSome) := by
  simp only [step] at h
  cases hS : S (u >>> 16) (u &&& ((1 <<< 16) - 1)) with
  | none => rw [hS] at h; cases h
  | some f =>
    rw [hS] at h
    simp only at h
    split at h
    · cases h
    · have h' := Except.ok.inj h
      subst h'
      refine ⟨f, rfl, ?_, ?_, ?_⟩
      · cases st <;> simp [alen, stepOk]
      · intro hg
        simp only [tlen, Option.bind_some, hacc, hg, Option.map_none]
        cases hst : st.bind accT <;> simp [catOpt]
      · intro hg
        obtain ⟨t, ht⟩ := Option.isSome_iff_exists.mp hg
        simp only [tlen, Option.bind_some, hacc, ht, Option.map_some]
        cases hst : st.bind accT <;> simp [catOpt]

theorem fold_table (get : PlateFile α τ → Option (Nat → τ)) (accT : Acc α τ → Option (List τ))
    (hacc : ∀ f idx rows st, accT (stepOk f idx rows st) = catOpt (st.bind accT) ((get f).map (fun t => rows.map t)))
    (S : Survey α τ) (pv mv : List Nat) (fv : List Int) (us : List Nat) :
    ∀ (st st' : Option (Acc α τ)), us.foldlM (step S pv mv fv) st = .ok st' → tlen accT st ≤ alen st →
      tlen accT st' ≤ alen st' ∧ (tlen accT st < alen st → tlen accT st' < alen st') ∧
      ((st.bind accT).isSome → (st'.bind accT).isSome) ∧
      (∀ u ∈ us, ∀ f, S (u >>> 16) (u &&& ((1 <<< 16) - 1)) = some f → get f = none → 0 < (idxOf pv mv u).length →
        tlen accT st' < alen st') ∧
      (∀ u ∈ us, ∀ f, S (u >>> 16) (u &&& ((1 <<< 16) - 1)) = some f → (get f).isSome → (st'.bind accT).isSome) := by
  induction us with
  | nil =>
    intro st st' h hle
    have : st = st' := Except.ok.inj h
    subst this
    refine ⟨hle, id, id, ?_, ?_⟩ <;> (intro u hu; cases hu)
  | cons x xs ih =>
    intro st st' h hle
    rw [List.foldlM_cons] at h
    cases hx : step S pv mv fv st x with
    | error e => rw [hx] at h; cases h
    | ok s1 =>
      rw [hx] at h
      obtain ⟨f, hf, ha, hn, hs⟩ := step_table get accT hacc S pv mv fv st s1 x hx
      have hle1 : tlen accT s1 ≤ alen s1 := by
        cases hg : get f with
        | none => have := (hn hg).1; omega
        | some t => have := (hs (by rw [hg]; rfl)).1; omega
      obtain ⟨i1, i2, i3, i4, i5⟩ := ih s1 st' h hle1
      refine ⟨i1, ?_, ?_, ?_, ?_⟩
      · intro hlt
        apply i2
        cases hg : get f with
        | none => have := (hn hg).1; omega
        | some t => have := (hs (by rw [hg]; rfl)).1; omega
      · intro hsome
        apply i3
        cases hg : get f with
        | none => exact (hn hg).2 hsome
        | some t => exact (hs (by rw [hg]; rfl)).2
      · intro u hu g hg hnone hpos
        rcases List.mem_cons.mp hu with e | e
        · subst e
          rw [hf] at hg
          have := Option.some.inj hg
          subst this
          apply i2
          have := (hn hnone).1
          omega
        · exact i4 u e g hg hnone hpos
      · intro u hu g hg hsome
        rcases List.mem_cons.mp hu with e | e
        · subst e
          rw [hf] at hg
          have := Option.some.inj hg
          subst this
          exact i3 (hs hsome).2
        · exact i5 u e g hg hsome

/-- PROPERTY (error theorem, mixed availability, the whole loop).  If ONE requested plate-MJD has the spZbest (resp. photoPlate)
file and ANOTHER requested one has not, readspec returns nothing: it raises - at the latest in the reorder step, where the table
has fewer rows than there are requests - for ANY argsort, any order of the requests.  `which = true`: zans, `false`: tsobj. -/
theorem readspec_mixed_tables_raise (which : Bool) (argsort : List Nat → List Nat) (hA : IsArgsort argsort)
    (S : Survey α τ) (pv mv : List Nat) (fv : List Int) (hlen : mv.length = pv.length)
    (i j : Nat) (hi : i < pv.length) (hj : j < pv.length) (hmi : mv.getD i 0 < 2 ^ 16) (hmj : mv.getD j 0 < 2 ^ 16)
    (fi fj : PlateFile α τ) (hSi : S (pv.getD i 0) (mv.getD i 0) = some fi) (hSj : S (pv.getD j 0) (mv.getD j 0) = some fj)
    (hnone : (if which then fi.zans else fi.tsobj) = none) (hsome : (if which then fj.zans else fj.tsobj).isSome) :
    ∃ e, readspecCore argsort S pv mv fv = .error e := by
  simp only [readspecCore]
  cases hfold : (uniq (List.zipWith key pv mv)).foldlM (step S pv mv fv) none with
  | error e => exact ⟨e, rfl⟩
  | ok st' =>
    cases st' with
    | none => exact ⟨"UnboundLocalError", rfl⟩
    | some a =>
      have hui : key (pv.getD i 0) (mv.getD i 0) ∈ uniq (List.zipWith key pv mv) := (mem_keys hlen _).mpr ⟨i, hi, rfl⟩
      have huj : key (pv.getD j 0) (mv.getD j 0) ∈ uniq (List.zipWith key pv mv) := (mem_keys hlen _).mpr ⟨j, hj, rfl⟩
      have hdi := key_decode (pv.getD i 0) (mv.getD i 0) hmi
      have hdj := key_decode (pv.getD j 0) (mv.getD j 0) hmj
      have hpos : 0 < (idxOf pv mv (key (pv.getD i 0) (mv.getD i 0))).length :=
        List.length_pos_of_mem ((mem_idxOf _ i).mpr ⟨hi, hdi.1.symm, hdi.2.symm⟩)
      have key_fact : ∀ (get : PlateFile α τ → Option (Nat → τ)) (accT : Acc α τ → Option (List τ)),
          (∀ f idx rows st, accT (stepOk f idx rows st) = catOpt (st.bind accT) ((get f).map (fun t => rows.map t))) →
          get fi = none → (get fj).isSome → ∃ l, accT a = some l ∧ l.length < a.allidx.length := by
        intro get accT hacc h1 h2
        obtain ⟨_, _, _, i4, i5⟩ := fold_table get accT hacc S pv mv fv _ none (some a) hfold (by simp [tlen, alen])
        have hlt := i4 _ hui fi (by rw [hdi.1, hdi.2]; exact hSi) h1 hpos
        have hs := i5 _ huj fj (by rw [hdj.1, hdj.2]; exact hSj) h2
        simp only [Option.bind_some] at hs
        obtain ⟨l, hl⟩ := Option.isSome_iff_exists.mp hs
        refine ⟨l, hl, ?_⟩
        simpa [tlen, alen, hl] using hlt
      have hfin : ∃ e, finish argsort a = .error e := by
        apply finish_short_table_raises argsort hA a
        cases which with
        | true =>
          left
          exact key_fact (·.zans) (·.zans) (by intro f idx rows st; cases st <;> rfl) (by simpa using hnone) (by simpa using hsome)
        | false =>
          right
          exact key_fact (·.tsobj) (·.tsobj) (by intro f idx rows st; cases st <;> rfl) (by simpa using hnone) (by simpa using hsome)
      obtain ⟨e, he⟩ := hfin
      exact ⟨e, he⟩

end Mixed

/-! non-vacuity of the listing theorems -/
example : specFileName 266 51630 = ['s','p','P','l','a','t','e','-','0','2','6','6','-','5','1','6','3','0','.','f','i','t','s'] ∧
    specFileName 10266 5 = ['s','p','P','l','a','t','e','-','1','0','2','6','6','-','0','0','0','0','5','.','f','i','t','s'] := by
  constructor <;> simp [specFileName, pmjdStr, fmtD, padL, decDigits, digitChar, sPfx, sSfx]
example : NoGlob ['s','p','Z','b','e','s','t','-','0','2','6','6','-','5','1','6','3','0','.','f','i','t','s'] := by
  intro p
  simp only [globMatch, Bool.and_eq_false_iff]
  left
  rw [← Bool.not_eq_true, List.isPrefixOf_iff_prefix]
  rintro ⟨t, ht⟩
  have := congrArg (fun l => l[2]?) ht
  simp [sPfx] at this
example : latestMjdFS ['/','d','a','t','a'] (listingOf [(266, 51630), (2660, 59999), (10266, 58888), (266, 51602)]) 266 = .ok 51630 := by
  rw [latestMjdFS_eq_latestMjd _ _ (by decide) _ (by decide)]
  rfl

end PydlVerif.C16

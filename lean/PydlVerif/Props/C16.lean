/-
C16 property theorems: readspec returns each requested spectrum in request
order, unshifted; spec_append never overlaps, drops or moves data other than by
the requested pixel shift.  Helper lemmas first (sections "helpers"), property
theorems (listed in harness/props/c16.py) are marked PROPERTY.
Core Lean only.
-/
import PydlVerif.Model.SpecOrder
namespace PydlVerif.C16
open PydlVerif PydlVerif.SpecOrder

/-! ## helpers: rows, padding -/

/-- cell (i, p) of a 2-d array (`z` outside) -/
def cell {α} (z : α) (s : Img α) (i p : Nat) : α := ((s.rows[i]?).getD [])[p]?.getD z

/-- every row has `npix` cells (a rectangular numpy array) -/
def Img.WF {α} (s : Img α) : Prop := ∀ r ∈ s.rows, r.length = s.npix

/-- a row right-padded with zeros to width `w`, nothing in front of it -/
def padTo {α} (z : α) (w : Nat) (r : List α) : List α := r ++ List.replicate (w - r.length) z

theorem place_zero {α} (z : α) (w : Nat) (r : List α) : place z w 0 r = padTo z w r := by
  simp [place, padTo]

theorem place_length {α} (z : α) (w nadd : Nat) (r : List α) (h : nadd + r.length ≤ w) :
    (place z w nadd r).length = w := by
  simp [place]; omega

theorem place_get {α} (z : α) (w nadd : Nat) (r : List α) (p : Nat) :
    (place z w nadd r)[p]?.getD z = if nadd ≤ p ∧ p < nadd + r.length then r[p - nadd]?.getD z else z := by
  unfold place
  by_cases h1 : p < nadd
  · have : ¬ (nadd ≤ p ∧ p < nadd + r.length) := by omega
    simp [List.getElem?_append, h1, this]
  · by_cases h2 : p < nadd + r.length
    · have h3 : nadd ≤ p ∧ p < nadd + r.length := by omega
      have h4 : p - nadd < r.length := by omega
      simp [List.getElem?_append, h1, h2, h3, h4]
    · have h3 : ¬ (nadd ≤ p ∧ p < nadd + r.length) := by omega
      have h4 : ¬ (p - nadd < r.length) := by omega
      simp only [List.getElem?_append, List.length_append, List.length_replicate, h2, if_false]
      simp [List.getElem?_replicate]
      split <;> simp

theorem padTo_length {α} (z : α) (w : Nat) (r : List α) : (padTo z w r).length = max w r.length := by
  simp [padTo]; omega

theorem padTo_padTo {α} (z : α) (w1 w2 : Nat) (r : List α) :
    padTo z w2 (padTo z w1 r) = padTo z (max w1 w2) r := by
  simp only [padTo, List.length_append, List.length_replicate, List.append_assoc,
    List.replicate_append_replicate]
  congr 2; omega

theorem padTo_of_length {α} (z : α) (w : Nat) (r : List α) (h : w ≤ r.length) : padTo z w r = r := by
  simp [padTo, Nat.sub_eq_zero_of_le h]

theorem padTo_get {α} (z : α) (w : Nat) (r : List α) (p : Nat) :
    (padTo z w r)[p]?.getD z = r[p]?.getD z := by
  rw [← place_zero, place_get]
  by_cases h : p < r.length
  · simp [h]
  · simp [h]

theorem nadd1_eq (ps : Int) : nadd1 ps = (-ps).toNat := by
  unfold nadd1
  by_cases h : ps = 0
  · simp [h]
  · by_cases h' : ps < 0 <;> simp [h, h'] <;> omega

theorem nadd2_eq (ps : Int) : nadd2 ps = ps.toNat := by
  unfold nadd2
  by_cases h : ps = 0
  · simp [h]
  · by_cases h' : ps < 0 <;> simp [h, h'] <;> omega

/-! ## PROPERTY: spec_append -/

/-- PROPERTY.  The result of `spec_append(spec1, spec2, pixshift)` is rectangular, has
`nrows1 + nrows2` rows and `max(npix1 + nadd1, npix2 + nadd2)` pixels (`nadd1 = |pixshift|`
for a negative shift, `nadd2 = pixshift` for a positive one); its first rows are the rows
of `spec1` moved right by exactly `nadd1`, the following ones the rows of `spec2` moved right
by exactly `nadd2`; every other cell is zero. -/
theorem specAppend_spec {α} (z : α) (s1 s2 : Img α) (ps : Int) (h1 : Img.WF s1) (h2 : Img.WF s2) :
    let r := specAppend z s1 s2 ps
    let a1 := (-ps).toNat
    let a2 := ps.toNat
    r.npix = max (s1.npix + a1) (s2.npix + a2) ∧ Img.WF r ∧
    r.rows.length = s1.rows.length + s2.rows.length ∧
    (∀ i p, i < s1.rows.length →
      cell z r i p = if a1 ≤ p ∧ p < a1 + s1.npix then cell z s1 i (p - a1) else z) ∧
    (∀ i p, i < s2.rows.length →
      cell z r (s1.rows.length + i) p = if a2 ≤ p ∧ p < a2 + s2.npix then cell z s2 i (p - a2) else z) := by
  intro r a1 a2
  have e1 : nadd1 ps = a1 := nadd1_eq ps
  have e2 : nadd2 ps = a2 := nadd2_eq ps
  refine ⟨?_, ?_, ?_, ?_, ?_⟩
  · simp [r, specAppend, e1, e2]
  · intro row hrow
    simp only [r, specAppend, List.mem_append, List.mem_map, e1, e2] at hrow ⊢
    rcases hrow with ⟨x, hx, rfl⟩ | ⟨x, hx, rfl⟩
    · apply place_length; rw [h1 x hx]; omega
    · apply place_length; rw [h2 x hx]; omega
  · simp [r, specAppend]
  · intro i p hi
    have hrow : r.rows[i]? = some (place z r.npix a1 s1.rows[i]) := by
      simp only [r, specAppend, e1, e2]
      rw [List.getElem?_append_left (by simpa using hi)]
      simp [hi]
    have hlen : (s1.rows[i]).length = s1.npix := h1 _ (List.getElem_mem hi)
    simp only [cell, hrow, Option.getD_some, place_get, hlen]
    simp [List.getElem?_eq_getElem hi]
  · intro i p hi
    have hrow : r.rows[s1.rows.length + i]? = some (place z r.npix a2 s2.rows[i]) := by
      simp [r, specAppend, e1, e2, hi]
    have hlen : (s2.rows[i]).length = s2.npix := h2 _ (List.getElem_mem hi)
    simp only [cell, hrow, Option.getD_some, place_get, hlen]
    simp [List.getElem?_eq_getElem hi]

/-- PROPERTY.  Nothing is dropped or overlaps: cell (i, q) of `spec1` is found at (i, q + nadd1),
cell (i, q) of `spec2` at (nrows1 + i, q + nadd2), both inside the result, and at most one of
the two shifts is non-zero. -/
theorem specAppend_nothing_dropped {α} (z : α) (s1 s2 : Img α) (ps : Int) (h1 : Img.WF s1) (h2 : Img.WF s2) :
    let r := specAppend z s1 s2 ps
    let a1 := (-ps).toNat
    let a2 := ps.toNat
    (a1 = 0 ∨ a2 = 0) ∧
    (∀ i q, i < s1.rows.length → q < s1.npix → q + a1 < r.npix ∧ cell z r i (q + a1) = cell z s1 i q) ∧
    (∀ i q, i < s2.rows.length → q < s2.npix →
      q + a2 < r.npix ∧ cell z r (s1.rows.length + i) (q + a2) = cell z s2 i q) := by
  intro r a1 a2
  obtain ⟨hn, _, _, hc1, hc2⟩ := specAppend_spec z s1 s2 ps h1 h2
  refine ⟨by omega, ?_, ?_⟩
  · intro i q hi hq
    refine ⟨by simp only [r] at *; omega, ?_⟩
    rw [hc1 i (q + (-ps).toNat) hi]
    have : (-ps).toNat ≤ q + (-ps).toNat ∧ q + (-ps).toNat < (-ps).toNat + s1.npix := by omega
    simp [this]
  · intro i q hi hq
    refine ⟨by simp only [r] at *; omega, ?_⟩
    rw [hc2 i (q + ps.toNat) hi]
    have : ps.toNat ≤ q + ps.toNat ∧ q + ps.toNat < ps.toNat + s2.npix := by omega
    simp [this]

/-! ## PROPERTY: the plate-MJD key -/

/-- PROPERTY.  `(plate << 16) + mjd` identifies the pair when `mjd < 2^16`. -/
theorem key_injective (p1 m1 p2 m2 : Nat) (h1 : m1 < 2 ^ 16) (h2 : m2 < 2 ^ 16)
    (h : key p1 m1 = key p2 m2) : p1 = p2 ∧ m1 = m2 := by
  simp only [key, Nat.shiftLeft_eq] at h
  omega

theorem key_decode (p m : Nat) (h : m < 2 ^ 16) :
    key p m >>> 16 = p ∧ key p m &&& ((1 <<< 16) - 1) = m := by
  have e : (1 <<< 16) - 1 = 2 ^ 16 - 1 := by decide
  rw [e, Nat.and_two_pow_sub_one_eq_mod, Nat.shiftRight_eq_div_pow]
  simp only [key, Nat.shiftLeft_eq]
  omega

/-- the decoding `u ↦ (u >> 16, u & 0xffff)` used by the loop is injective on all keys -/
theorem decode_inj (u v : Nat) (h1 : u >>> 16 = v >>> 16)
    (h2 : u &&& ((1 <<< 16) - 1) = v &&& ((1 <<< 16) - 1)) : u = v := by
  have e : (1 <<< 16) - 1 = 2 ^ 16 - 1 := by decide
  rw [e, Nat.and_two_pow_sub_one_eq_mod, Nat.and_two_pow_sub_one_eq_mod] at h2
  rw [Nat.shiftRight_eq_div_pow, Nat.shiftRight_eq_div_pow] at h1
  omega

/-! ## helpers: gathers and permutations -/

theorem filterMap_getElem?_eq_map {β} (l : List β) (d : β) (j : List Nat) (h : ∀ k ∈ j, k < l.length) :
    j.filterMap (l[·]?) = j.map (l.getD · d) := by
  induction j with
  | nil => rfl
  | cons k ks ih =>
    have hk : k < l.length := h k (by simp)
    have := ih (fun x hx => h x (by simp [hx]))
    simp [List.getElem?_eq_getElem hk, this, List.getD_eq_getElem?_getD]

theorem range_filterMap_getElem? {β} (l : List β) : (List.range l.length).filterMap (l[·]?) = l := by
  cases l with
  | nil => rfl
  | cons d t =>
    rw [filterMap_getElem?_eq_map _ d _ (by simp [List.mem_range])]
    apply List.ext_getElem
    · simp
    · intro i h1 h2
      simp [List.getD_eq_getElem?_getD, List.getElem?_eq_getElem h2]

/-- the contract of `np.argsort`: it returns *a* permutation of the positions that sorts the values -/
def IsArgsort (argsort : List Nat → List Nat) : Prop :=
  ∀ a, (argsort a).Perm (List.range a.length) ∧ ((argsort a).filterMap (a[·]?)).Pairwise (· ≤ ·)

/-- PROPERTY.  If `a` (the request positions in the order the files were read) is a permutation of
`0..n-1`, then gathering by ANY sorting permutation `j` of `a` undoes it: `a[j[i]] = i` for all i. -/
theorem argsort_perm_inverse (a j : List Nat) (ha : a.Perm (List.range a.length))
    (hj : j.Perm (List.range a.length)) (hs : (j.filterMap (a[·]?)).Pairwise (· ≤ ·)) :
    j.filterMap (a[·]?) = List.range a.length := by
  have h1 : (j.filterMap (a[·]?)).Perm (List.range a.length) := by
    have := hj.filterMap (a[·]?)
    rw [range_filterMap_getElem?] at this
    exact this.trans ha
  have h2 : (List.range a.length).Pairwise (· ≤ ·) :=
    List.Pairwise.imp (fun h => Nat.le_of_lt h) List.pairwise_lt_range
  exact List.Perm.eq_of_pairwise (fun x y _ _ hxy hyx => Nat.le_antisymm hxy hyx) hs h2 h1

/-- PROPERTY (non-vacuity of the contract).  The stand-in used by the driver is an argsort. -/
theorem argsortImpl_isArgsort : IsArgsort argsortImpl := by
  intro a
  have hp : (argsortImpl a).Perm (List.range a.length) := List.mergeSort_perm _ _
  refine ⟨hp, ?_⟩
  have hmem : ∀ k ∈ argsortImpl a, k < a.length := fun k hk => List.mem_range.mp (hp.mem_iff.mp hk)
  rw [filterMap_getElem?_eq_map a 0 _ hmem, List.pairwise_map]
  have := List.pairwise_mergeSort (le := fun i k => decide (a.getD i 0 ≤ a.getD k 0))
    (fun x y z hxy hyz => by simp only [decide_eq_true_eq] at *; omega)
    (fun x y => by simp only [Bool.or_eq_true, decide_eq_true_eq]; omega) (List.range a.length)
  exact this.imp (fun h => by simpa using h)

/-- gathering `idx.map g` by a sorting permutation of `idx` gives `g 0, g 1, ...` -/
theorem gather_map {β} (idx : List Nat) (g : Nat → β) (j : List Nat)
    (hj : j.Perm (List.range idx.length)) (hinv : j.filterMap (idx[·]?) = List.range idx.length) :
    gather (idx.map g) j = .ok ((List.range idx.length).map g) := by
  have hall : j.all (· < (idx.map g).length) = true := by
    simp only [List.all_eq_true, decide_eq_true_eq, List.length_map]
    exact fun k hk => List.mem_range.mp (hj.mem_iff.mp hk)
  simp only [gather, hall, if_true]
  have : (fun (k : Nat) => (idx.map g)[k]?) = fun (k : Nat) => (idx[k]?).map g := by funext k; simp
  rw [this, ← List.map_filterMap, hinv]
  rfl

/-! ## helpers: np.unique -/

theorem mem_insertU (a x : Nat) (l : List Nat) : a ∈ insertU x l ↔ a = x ∨ a ∈ l := by
  induction l with
  | nil => simp [insertU]
  | cons y ys ih =>
    unfold insertU
    split
    · simp
    · split
      · subst_vars; simp
      · simp [ih]; constructor <;> (intro h; rcases h with h | h | h <;> simp [h])

theorem pairwise_insertU (x : Nat) (l : List Nat) (h : l.Pairwise (· < ·)) : (insertU x l).Pairwise (· < ·) := by
  induction l with
  | nil => simp [insertU]
  | cons y ys ih =>
    have hy := List.pairwise_cons.mp h
    unfold insertU
    split
    · refine List.pairwise_cons.mpr ⟨?_, h⟩
      intro b hb
      rcases List.mem_cons.mp hb with rfl | hb
      · assumption
      · exact Nat.lt_trans ‹x < y› (hy.1 b hb)
    · split
      · exact h
      · refine List.pairwise_cons.mpr ⟨?_, ih hy.2⟩
        intro b hb
        rcases (mem_insertU b x ys).mp hb with rfl | hb
        · omega
        · exact hy.1 b hb

theorem mem_uniq (a : Nat) (l : List Nat) : a ∈ uniq l ↔ a ∈ l := by
  induction l with
  | nil => simp [uniq]
  | cons y ys ih =>
    have : uniq (y :: ys) = insertU y (uniq ys) := rfl
    rw [this, mem_insertU, ih]; simp

theorem pairwise_uniq (l : List Nat) : (uniq l).Pairwise (· < ·) := by
  induction l with
  | nil => simp [uniq]
  | cons y ys ih => exact pairwise_insertU y _ ih

theorem nodup_uniq (l : List Nat) : (uniq l).Nodup :=
  (pairwise_uniq l).imp (fun h => Nat.ne_of_lt h)

/-! ## helpers: one pass of the loop -/

section Core
variable {α τ : Type} [Scalar α]

/-- the zero of `np.zeros` -/
abbrev zero : α := Scalar.ofNat 0

/-- file row of request `i`: `fibre_i - 1` -/
def rowOf (fv : List Int) (i : Nat) : Nat := (fv.getD i 0 - 1).toNat

theorem rowIndex_valid (nfib : Nat) (x : Int) (h1 : 1 ≤ x) (h2 : x ≤ nfib) :
    rowIndex nfib x = some (x - 1).toNat := by
  have : 0 ≤ x - 1 ∧ x - 1 < (nfib : Int) := by omega
  simp only [rowIndex]
  rw [if_pos this]

/-- the pixels request `i` asks for in image `h` (7 = loglam) when its file is `f` -/
def srcRow (fv : List Int) (f : PlateFile α τ) (h i : Nat) : List α :=
  if h == 7 then loglam0 f else f.img h (rowOf fv i)

theorem tmpImg_eq (fv : List Int) (f : PlateFile α τ) (idx : List Nat) (h : Nat) :
    tmpImg f (idx.map (rowOf fv)) h = ⟨f.npix, idx.map (srcRow fv f h)⟩ := by
  unfold tmpImg srcRow
  split <;> simp [List.map_map, Function.comp_def]

theorem step_eval (S : Survey α τ) (pv mv : List Nat) (fv : List Int) (st : Option (Acc α τ)) (u : Nat)
    (f : PlateFile α τ) (hS : S (u >>> 16) (u &&& ((1 <<< 16) - 1)) = some f)
    (hfib : ∀ i ∈ idxOf pv mv u, 1 ≤ fv.getD i 0 ∧ fv.getD i 0 ≤ f.nfib) :
    step S pv mv fv st u = .ok (some (stepOk f (idxOf pv mv u) ((idxOf pv mv u).map (rowOf fv)) st)) := by
  have hall : ((idxOf pv mv u).map (fun i => fv.getD i 0)).all (fun x => (rowIndex f.nfib x).isSome) = true := by
    simp only [List.all_eq_true, List.mem_map]
    rintro x ⟨i, hi, rfl⟩
    rw [rowIndex_valid _ _ (hfib i hi).1 (hfib i hi).2]; rfl
  have hrows : ((idxOf pv mv u).map (fun i => fv.getD i 0)).map (fun x => (rowIndex f.nfib x).getD 0)
      = (idxOf pv mv u).map (rowOf fv) := by
    rw [List.map_map]
    apply List.map_congr_left
    intro i hi
    show (rowIndex f.nfib (fv.getD i 0)).getD 0 = rowOf fv i
    rw [rowIndex_valid _ _ (hfib i hi).1 (hfib i hi).2]
    rfl
  simp only [step, hS, hall, hrows]
  rfl

/-- `specAppend .. 0` of an accumulated block (rows padded to `w`) and the rows of a new file -/
theorem specAppend_padded (w np : Nat) (idx0 idx : List Nat) (g : Nat → List α) :
    specAppend (zero : α) ⟨w, idx0.map (fun i => padTo zero w (g i))⟩ ⟨np, idx.map g⟩ 0
      = ⟨max w np, (idx0 ++ idx).map (fun i => padTo zero (max w np) (g i))⟩ := by
  have e1 : nadd1 0 = 0 := by decide
  have e2 : nadd2 0 = 0 := by decide
  simp only [specAppend, e1, e2, Nat.add_zero, List.map_map, List.map_append, Function.comp_def, place_zero,
    padTo_padTo]
  congr 3
  funext i
  congr 1
  omega

end Core

/-! ## helpers: the invariant of the loop over the keys -/

section Loop
variable {α τ : Type} [Scalar α]

/-- the domain of the statement, for request vectors `(pv, mv, fv)` of length n:
`files i` is the spPlate file of request i, `zt` / `tt` the spZbest / photoPlate tables
(`none`: no requested plate has the file, `some t`: every one has it, `t i` being the table of request i) -/
structure Domain (S : Survey α τ) (pv mv : List Nat) (fv : List Int) (files : Nat → PlateFile α τ)
    (zt tt : Option (Nat → Nat → τ)) : Prop where
  len_mv : mv.length = pv.length
  len_fv : fv.length = pv.length
  mjd_lt : ∀ i, i < pv.length → mv.getD i 0 < 2 ^ 16
  file : ∀ i, i < pv.length → S (pv.getD i 0) (mv.getD i 0) = some (files i)
  fiber : ∀ i, i < pv.length → 1 ≤ fv.getD i 0 ∧ fv.getD i 0 ≤ (files i).nfib
  rect : ∀ i, i < pv.length → ∀ h ∈ imgHdus, h ≠ 7 → ∀ r, r < (files i).nfib →
    ((files i).img h r).length = (files i).npix
  zans : ∀ i, i < pv.length → (files i).zans = zt.map (fun t => t i)
  tsobj : ∀ i, i < pv.length → (files i).tsobj = tt.map (fun t => t i)

variable {S : Survey α τ} {pv mv : List Nat} {fv : List Int} {files : Nat → PlateFile α τ}
  {zt tt : Option (Nat → Nat → τ)}

theorem mem_idxOf (u i : Nat) : i ∈ idxOf pv mv u ↔
    i < pv.length ∧ pv.getD i 0 = u >>> 16 ∧ mv.getD i 0 = u &&& ((1 <<< 16) - 1) := by
  simp [idxOf, List.mem_filter, List.mem_range]

omit [Scalar α] in
/-- what is known about a key that comes from request `i0` -/
theorem good_key (D : Domain S pv mv fv files zt tt) (i0 : Nat) (h0 : i0 < pv.length)
    (u : Nat) (hu : u = key (pv.getD i0 0) (mv.getD i0 0)) :
    i0 ∈ idxOf pv mv u ∧ S (u >>> 16) (u &&& ((1 <<< 16) - 1)) = some (files i0) ∧
    ∀ i ∈ idxOf pv mv u, i < pv.length ∧ files i = files i0 := by
  subst hu
  obtain ⟨d1, d2⟩ := key_decode (pv.getD i0 0) (mv.getD i0 0) (D.mjd_lt i0 h0)
  refine ⟨(mem_idxOf _ i0).mpr ⟨h0, d1.symm, d2.symm⟩, ?_, ?_⟩
  · rw [d1, d2]; exact D.file i0 h0
  · intro i hi
    obtain ⟨hi1, hi2, hi3⟩ := (mem_idxOf _ i).mp hi
    refine ⟨hi1, ?_⟩
    have := D.file i hi1
    rw [hi2, hi3, d1, d2, D.file i0 h0] at this
    exact (Option.some.inj this).symm

/-- the accumulated state after the keys `done` -/
def Inv (pv mv : List Nat) (fv : List Int) (files : Nat → PlateFile α τ) (zt tt : Option (Nat → Nat → τ))
    (done : List Nat) (a : Acc α τ) : Prop :=
  ∃ w, a.allidx = done.flatMap (idxOf pv mv) ∧
    a.imgs = imgHdus.map (fun h => ⟨w, a.allidx.map (fun i => padTo zero w (srcRow fv (files i) h i))⟩) ∧
    a.plug = a.allidx.map (fun i => (files i).plug (rowOf fv i)) ∧
    a.zans = zt.map (fun t => a.allidx.map (fun i => t i (rowOf fv i))) ∧
    a.tsobj = tt.map (fun t => a.allidx.map (fun i => t i (rowOf fv i))) ∧
    (∀ i ∈ a.allidx, (files i).npix ≤ w) ∧ (∃ i ∈ a.allidx, (files i).npix = w)

theorem srcRow_length (D : Domain S pv mv fv files zt tt) (i : Nat) (hi : i < pv.length) (h : Nat)
    (hh : h ∈ imgHdus) : (srcRow fv (files i) h i).length = (files i).npix := by
  unfold srcRow
  split
  · simp [loglam0]
  · rename_i h7
    have hf := D.fiber i hi
    apply D.rect i hi h hh (by simpa using h7)
    unfold rowOf; omega

omit [Scalar α] in
/-- the table part of a pass -/
theorem tab_new (get : PlateFile α τ → Option (Nat → τ)) (xt : Option (Nat → Nat → τ)) (idx : List Nat) (i0 : Nat)
    (hget : ∀ i ∈ idx, get (files i0) = xt.map (fun t => t i)) :
    (get (files i0)).map (fun t => idx.map (fun i => t (rowOf fv i)))
      = if idx = [] then (get (files i0)).map (fun _ => []) else xt.map (fun t => idx.map (fun i => t i (rowOf fv i))) := by
  split
  · subst_vars; simp
  · cases xt with
    | none =>
      cases idx with
      | nil => contradiction
      | cons i t => simp [hget i (by simp)]
    | some t =>
      cases idx with
      | nil => contradiction
      | cons i0' rest =>
        have h0 := hget i0' (by simp)
        simp only [Option.map_some] at h0 ⊢
        rw [h0]
        simp only [Option.map_some, Option.some.injEq]
        apply List.map_congr_left
        intro i hi
        have := hget i hi
        rw [h0] at this
        simp only [Option.map_some, Option.some.injEq] at this
        rw [this]

theorem catOpt_none_left {τ} (x : Option (List τ)) : catOpt none x = x := by cases x <;> rfl

theorem catOpt_map {β τ} (xt : Option β) (A B : β → List τ) :
    catOpt (xt.map A) (xt.map B) = xt.map (fun t => A t ++ B t) := by cases xt <;> rfl

/-- the `tmp` data of the pass for a key that comes from request `i0`, in terms of the requests -/
theorem pass_data (D : Domain S pv mv fv files zt tt) (i0 : Nat) (h0 : i0 < pv.length)
    (u : Nat) (hu : u = key (pv.getD i0 0) (mv.getD i0 0)) (idx : List Nat) (hidx : idx = idxOf pv mv u)
    (f : PlateFile α τ) (hf : f = files i0) :
    (∀ h, tmpImg f (idx.map (rowOf fv)) h = ⟨f.npix, idx.map (fun i => srcRow fv (files i) h i)⟩) ∧
    (idx.map (rowOf fv)).map f.plug = idx.map (fun i => (files i).plug (rowOf fv i)) ∧
    f.zans.map (fun t => (idx.map (rowOf fv)).map t) = zt.map (fun t => idx.map (fun i => t i (rowOf fv i))) ∧
    f.tsobj.map (fun t => (idx.map (rowOf fv)).map t) = tt.map (fun t => idx.map (fun i => t i (rowOf fv i))) := by
  subst hidx hf
  obtain ⟨hmem0, _, hall⟩ := good_key D i0 h0 u hu
  have hne : idxOf pv mv u ≠ [] := List.ne_nil_of_mem hmem0
  refine ⟨?_, ?_, ?_, ?_⟩
  · intro h
    rw [tmpImg_eq]
    congr 1
    apply List.map_congr_left
    intro i hi
    rw [(hall i hi).2]
  · rw [List.map_map]
    apply List.map_congr_left
    intro i hi
    simp only [Function.comp_def, (hall i hi).2]
  · have := tab_new (fv := fv) (files := files) (fun f => f.zans) zt (idxOf pv mv u) i0
      (fun i hi => by rw [← (hall i hi).2]; exact D.zans i (hall i hi).1)
    simp only [hne, if_false] at this
    simpa [List.map_map, Function.comp_def] using this
  · have := tab_new (fv := fv) (files := files) (fun f => f.tsobj) tt (idxOf pv mv u) i0
      (fun i hi => by rw [← (hall i hi).2]; exact D.tsobj i (hall i hi).1)
    simp only [hne, if_false] at this
    simpa [List.map_map, Function.comp_def] using this

theorem inv_first (D : Domain S pv mv fv files zt tt) (i0 : Nat) (h0 : i0 < pv.length)
    (u : Nat) (hu : u = key (pv.getD i0 0) (mv.getD i0 0)) :
    Inv pv mv fv files zt tt [u]
      (stepOk (files i0) (idxOf pv mv u) ((idxOf pv mv u).map (rowOf fv)) none) := by
  obtain ⟨hmem0, _, hall⟩ := good_key D i0 h0 u hu
  obtain ⟨p1, p2, p3, p4⟩ := pass_data D i0 h0 u hu _ rfl _ rfl
  refine ⟨(files i0).npix, by simp [stepOk], ?_, ?_, ?_, ?_, ?_, ?_⟩
  · simp only [stepOk]
    apply List.map_congr_left
    intro h hh
    rw [p1 h]
    congr 1
    apply List.map_congr_left
    intro i hi
    rw [padTo_of_length]
    rw [srcRow_length D i (hall i hi).1 h hh, (hall i hi).2]
    exact Nat.le_refl _
  · simp only [stepOk]; exact p2
  · simp only [stepOk, catOpt_none_left]; exact p3
  · simp only [stepOk, catOpt_none_left]; exact p4
  · intro i hi
    simp only [stepOk] at hi
    rw [(hall i hi).2]; exact Nat.le_refl _
  · exact ⟨i0, by simpa [stepOk] using hmem0, rfl⟩

theorem inv_step (D : Domain S pv mv fv files zt tt) (i0 : Nat) (h0 : i0 < pv.length)
    (done : List Nat) (a : Acc α τ) (ha : Inv pv mv fv files zt tt done a)
    (u : Nat) (hu : u = key (pv.getD i0 0) (mv.getD i0 0)) :
    Inv pv mv fv files zt tt (done ++ [u])
      (stepOk (files i0) (idxOf pv mv u) ((idxOf pv mv u).map (rowOf fv)) (some a)) := by
  obtain ⟨hmem0, _, hall⟩ := good_key D i0 h0 u hu
  obtain ⟨p1, p2, p3, p4⟩ := pass_data D i0 h0 u hu _ rfl _ rfl
  obtain ⟨w, a1, a2, a3, a4, a5, a6, a7⟩ := ha
  refine ⟨max w (files i0).npix, by simp [stepOk, a1], ?_, ?_, ?_, ?_, ?_, ?_⟩
  · simp only [stepOk]
    rw [a2, List.zipWith_map, List.zipWith_self]
    apply List.map_congr_left
    intro h _
    rw [p1 h]
    exact specAppend_padded w (files i0).npix a.allidx (idxOf pv mv u) (fun i => srcRow fv (files i) h i)
  · simp only [stepOk, a3, p2, List.map_append]
  · simp only [stepOk, a4, p3, catOpt_map, List.map_append]
  · simp only [stepOk, a5, p4, catOpt_map, List.map_append]
  · intro i hi
    simp only [stepOk, List.mem_append] at hi
    rcases hi with hi | hi
    · exact Nat.le_trans (a6 i hi) (Nat.le_max_left _ _)
    · rw [(hall i hi).2]; exact Nat.le_max_right _ _
  · obtain ⟨k, hk, hkw⟩ := a7
    by_cases hc : (files i0).npix ≤ w
    · exact ⟨k, by simp [stepOk, hk], by omega⟩
    · exact ⟨i0, by simp only [stepOk, List.mem_append]; exact Or.inr hmem0, by omega⟩

theorem fold_inv (D : Domain S pv mv fv files zt tt) (us : List Nat)
    (hus : ∀ u ∈ us, ∃ i0, i0 < pv.length ∧ u = key (pv.getD i0 0) (mv.getD i0 0))
    (done : List Nat) (a : Acc α τ) (ha : Inv pv mv fv files zt tt done a) :
    ∃ a', us.foldlM (step S pv mv fv) (some a) = .ok (some a') ∧ Inv pv mv fv files zt tt (done ++ us) a' := by
  induction us generalizing done a with
  | nil => exact ⟨a, rfl, by simpa using ha⟩
  | cons u us ih =>
    obtain ⟨i0, h0, hu⟩ := hus u (by simp)
    obtain ⟨_, hS, hall⟩ := good_key D i0 h0 u hu
    have hfib : ∀ i ∈ idxOf pv mv u, 1 ≤ fv.getD i 0 ∧ fv.getD i 0 ≤ (files i0).nfib := by
      intro i hi
      have := D.fiber i (hall i hi).1
      rwa [(hall i hi).2] at this
    have hstep := step_eval S pv mv fv (some a) u (files i0) hS hfib
    obtain ⟨a', h1, h2⟩ := ih (fun v hv => hus v (by simp [hv])) (done ++ [u]) _ (inv_step D i0 h0 done a ha u hu)
    refine ⟨a', ?_, by simpa using h2⟩
    rw [List.foldlM_cons, hstep]
    exact h1

theorem fold_all (D : Domain S pv mv fv files zt tt) (u : Nat) (us : List Nat)
    (hus : ∀ v ∈ u :: us, ∃ i0, i0 < pv.length ∧ v = key (pv.getD i0 0) (mv.getD i0 0)) :
    ∃ a', (u :: us).foldlM (step S pv mv fv) none = .ok (some a') ∧ Inv pv mv fv files zt tt (u :: us) a' := by
  obtain ⟨i0, h0, hu⟩ := hus u (by simp)
  obtain ⟨_, hS, hall⟩ := good_key D i0 h0 u hu
  have hfib : ∀ i ∈ idxOf pv mv u, 1 ≤ fv.getD i 0 ∧ fv.getD i 0 ≤ (files i0).nfib := by
    intro i hi
    have := D.fiber i (hall i hi).1
    rwa [(hall i hi).2] at this
  have hstep := step_eval S pv mv fv none u (files i0) hS hfib
  obtain ⟨a', h1, h2⟩ := fold_inv D us (fun v hv => hus v (by simp [hv])) [u] _ (inv_first D i0 h0 u hu)
  refine ⟨a', ?_, by simpa using h2⟩
  rw [List.foldlM_cons, hstep]
  exact h1

omit [Scalar α] in
/-- the keys that are looped over are exactly the keys of the requests -/
theorem mem_keys (hlen : mv.length = pv.length) (u : Nat) :
    u ∈ uniq (List.zipWith key pv mv) ↔ ∃ i0, i0 < pv.length ∧ u = key (pv.getD i0 0) (mv.getD i0 0) := by
  rw [mem_uniq, List.mem_iff_getElem]
  constructor
  · rintro ⟨i, hi, rfl⟩
    have hi' : i < pv.length := by simp at hi; omega
    have hi'' : i < mv.length := by omega
    refine ⟨i, hi', ?_⟩
    simp [List.getD_eq_getElem?_getD, List.getElem?_eq_getElem hi', List.getElem?_eq_getElem hi'']
  · rintro ⟨i, hi, rfl⟩
    have hi'' : i < mv.length := by omega
    refine ⟨i, by simp; omega, ?_⟩
    simp [List.getD_eq_getElem?_getD, List.getElem?_eq_getElem hi, List.getElem?_eq_getElem hi'']

omit [Scalar α] in
/-- every request position is read exactly once: `allpmjdindex` is a permutation of 0..n-1 -/
theorem allidx_perm (D : Domain S pv mv fv files zt tt) :
    ((uniq (List.zipWith key pv mv)).flatMap (idxOf pv mv)).Perm (List.range pv.length) := by
  apply (List.perm_ext_iff_of_nodup ?_ List.nodup_range).mpr
  · intro i
    rw [List.mem_flatMap, List.mem_range]
    constructor
    · rintro ⟨u, _, hi⟩
      exact ((mem_idxOf u i).mp hi).1
    · intro hi
      refine ⟨key (pv.getD i 0) (mv.getD i 0), (mem_keys D.len_mv _).mpr ⟨i, hi, rfl⟩, ?_⟩
      exact (good_key D i hi _ rfl).1
  · rw [List.nodup_iff_pairwise_ne, List.pairwise_flatMap]
    refine ⟨fun u _ => ?_, ?_⟩
    · exact (List.nodup_range (n := pv.length)).sublist List.filter_sublist
    · refine (nodup_uniq _).imp ?_
      intro u v huv x hx y hy hxy
      subst hxy
      obtain ⟨_, a1, a2⟩ := (mem_idxOf u x).mp hx
      obtain ⟨_, b1, b2⟩ := (mem_idxOf v x).mp hy
      exact huv (decode_inj u v (by omega) (by omega))

theorem mapM_ok {ε β γ : Type} (F : β → Except ε γ) (G : β → γ) (l : List β)
    (h : ∀ x ∈ l, F x = .ok (G x)) : l.mapM F = .ok (l.map G) := by
  induction l with
  | nil => rfl
  | cons x xs ih =>
    rw [List.mapM_cons, h x (by simp), ih (fun y hy => h y (by simp [hy]))]
    rfl

/-- readspec on request vectors of the domain returns, for EVERY request vector, the rows of the
requests in request order (list form; the property theorems below read it off row by row) -/
theorem readspecCore_eq (argsort : List Nat → List Nat) (hA : IsArgsort argsort)
    (D : Domain S pv mv fv files zt tt) (hn : 0 < pv.length) :
    ∃ w, (∀ i, i < pv.length → (files i).npix ≤ w) ∧ (∃ i, i < pv.length ∧ (files i).npix = w) ∧
      readspecCore argsort S pv mv fv = .ok
        ⟨imgHdus.map (fun h => ⟨w, (List.range pv.length).map (fun i => padTo zero w (srcRow fv (files i) h i))⟩),
         (List.range pv.length).map (fun i => (files i).plug (rowOf fv i)),
         zt.map (fun t => (List.range pv.length).map (fun i => t i (rowOf fv i))),
         tt.map (fun t => (List.range pv.length).map (fun i => t i (rowOf fv i)))⟩ := by
  have hkeys := fun u => (mem_keys (pv := pv) (mv := mv) D.len_mv u).mp
  have hne : key (pv.getD 0 0) (mv.getD 0 0) ∈ uniq (List.zipWith key pv mv) :=
    (mem_keys D.len_mv _).mpr ⟨0, hn, rfl⟩
  have hperm := allidx_perm D
  cases hk : uniq (List.zipWith key pv mv) with
  | nil => rw [hk] at hne; cases hne
  | cons u us =>
    rw [hk] at hperm
    obtain ⟨a, hfold, w, a1, a2, a3, a4, a5, a6, a7⟩ := fold_all D u us (fun v hv => hkeys v (hk ▸ hv))
    rw [← a1] at hperm
    have hlen : a.allidx.length = pv.length := by simpa using hperm.length_eq
    obtain ⟨hj, hs⟩ := hA a.allidx
    have hinv := argsort_perm_inverse a.allidx (argsort a.allidx) (hlen ▸ hperm) hj hs
    refine ⟨w, ?_, ?_, ?_⟩
    · intro i hi
      exact a6 i (hperm.mem_iff.mpr (List.mem_range.mpr hi))
    · obtain ⟨i, hi, hw⟩ := a7
      exact ⟨i, List.mem_range.mp (hperm.mem_iff.mp hi), hw⟩
    · simp only [readspecCore, hk]
      rw [hfold]
      show finish argsort a = _
      have himgs : a.imgs.mapM (fun s => do pure (⟨s.npix, ← gather s.rows (argsort a.allidx)⟩ : Img α))
          = .ok (imgHdus.map (fun h => ⟨w, (List.range pv.length).map
              (fun i => padTo zero w (srcRow fv (files i) h i))⟩)) := by
        rw [a2, List.mapM_map]
        apply mapM_ok
        intro h _
        simp only [Function.comp_def]
        rw [gather_map _ _ _ hj hinv, hlen]
        rfl
      have hplug : gather a.plug (argsort a.allidx)
          = .ok ((List.range pv.length).map (fun i => (files i).plug (rowOf fv i))) := by
        rw [a3, gather_map _ _ _ hj hinv, hlen]
      have hz : gatherOpt a.zans (argsort a.allidx)
          = .ok (zt.map (fun t => (List.range pv.length).map (fun i => t i (rowOf fv i)))) := by
        rw [a4]
        cases zt with
        | none => rfl
        | some t => simp only [gatherOpt, Option.map_some]; rw [gather_map _ _ _ hj hinv, hlen]; rfl
      have ht : gatherOpt a.tsobj (argsort a.allidx)
          = .ok (tt.map (fun t => (List.range pv.length).map (fun i => t i (rowOf fv i)))) := by
        rw [a5]
        cases tt with
        | none => rfl
        | some t => simp only [gatherOpt, Option.map_some]; rw [gather_map _ _ _ hj hinv, hlen]; rfl
      simp only [finish]
      rw [himgs, hplug, hz, ht]
      rfl

end Loop

/-! ## PROPERTY: readspec -/

section Main
variable {α τ : Type} [Scalar α]
variable {S : Survey α τ} {pv mv : List Nat} {fv : List Int} {files : Nat → PlateFile α τ}
  {zt tt : Option (Nat → Nat → τ)}

/-- PROPERTY.  For EVERY request vector `(pv, mv, fv)` of the domain (any order, repeats, mixtures of
plates and MJDs; `files i` = the spPlate file of `(plate_i, mjd_i)`), and for any sorting permutation
`argsort` may return: readspec succeeds, every image has n rows and `w` pixels where `w` is the
longest pixel count among the requested plates, and row i of every image read from HDU `h`
(flux, invvar, andmask, ormask, disp, sky) is row `fibre_i - 1` of HDU `h` of the file of request i,
followed by `w - npix_i` zeros: right-padded, never shifted. -/
theorem readspec_row_i (argsort : List Nat → List Nat) (hA : IsArgsort argsort)
    (D : Domain S pv mv fv files zt tt) (hn : 0 < pv.length) :
    ∃ res w, readspecCore argsort S pv mv fv = .ok res ∧
      (∀ i, i < pv.length → (files i).npix ≤ w) ∧ (∃ i, i < pv.length ∧ (files i).npix = w) ∧
      res.imgs.length = imgHdus.length ∧
      ∀ (k h : Nat), imgHdus[k]? = some h → h ≠ 7 →
        ∃ im : Img α, res.imgs[k]? = some im ∧ im.npix = w ∧ im.rows.length = pv.length ∧
          ∀ i, i < pv.length → im.rows[i]? =
            some ((files i).img h ((fv.getD i 0 - 1).toNat) ++ List.replicate (w - (files i).npix) zero) := by
  obtain ⟨w, h1, h2, h3⟩ := readspecCore_eq argsort hA D hn
  refine ⟨_, w, h3, h1, h2, by simp, ?_⟩
  intro k h hk h7
  refine ⟨⟨w, (List.range pv.length).map (fun i => padTo zero w (srcRow fv (files i) h i))⟩,
    by simp only [List.getElem?_map, hk, Option.map_some], rfl, by simp, ?_⟩
  intro i hi
  have hh : h ∈ imgHdus := List.mem_of_getElem? hk
  have hl := srcRow_length D i hi h hh
  have hs : srcRow fv (files i) h i = (files i).img h (rowOf fv i) := by
    unfold srcRow; simp [h7]
  simp only [List.getElem?_map, List.getElem?_range hi, Option.map_some, padTo, hl]
  rw [hs]; rfl

/-- PROPERTY.  Under the same hypotheses the wavelength array has the same shape and its row i is
`COEFF0_i + COEFF1_i * p` for the pixels `p < npix_i` of the plate of request i, and 0 in the padding. -/
theorem loglam_rows (argsort : List Nat → List Nat) (hA : IsArgsort argsort)
    (D : Domain S pv mv fv files zt tt) (hn : 0 < pv.length) :
    ∃ res w, readspecCore argsort S pv mv fv = .ok res ∧
      (∀ i, i < pv.length → (files i).npix ≤ w) ∧ (∃ i, i < pv.length ∧ (files i).npix = w) ∧
      ∃ im : Img α, res.imgs[6]? = some im ∧ im.npix = w ∧ im.rows.length = pv.length ∧
        ∀ i, i < pv.length → im.rows[i]? =
          some ((List.range (files i).npix).map (fun p => (files i).c0 + (files i).c1 * Scalar.ofNat p)
            ++ List.replicate (w - (files i).npix) zero) := by
  obtain ⟨w, h1, h2, h3⟩ := readspecCore_eq argsort hA D hn
  refine ⟨_, w, h3, h1, h2, ⟨w, (List.range pv.length).map (fun i => padTo zero w (srcRow fv (files i) 7 i))⟩,
    by simp [imgHdus], rfl, by simp, ?_⟩
  intro i hi
  have hl := srcRow_length D i hi 7 (by simp [imgHdus])
  have hs : srcRow fv (files i) 7 i = loglam0 (files i) := by
    unfold srcRow; simp
  simp only [List.getElem?_map, List.getElem?_range hi, Option.map_some, padTo, hl]
  rw [hs]; rfl

/-- PROPERTY.  Under the same hypotheses row i of the plug-map is row `fibre_i - 1` of the plug-map
of the file of request i; the redshift table (`zans`) and the photo table (`tsobj`) are returned
exactly when the files exist, and then row i is row `fibre_i - 1` of the table of request i. -/
theorem readspec_tables (argsort : List Nat → List Nat) (hA : IsArgsort argsort)
    (D : Domain S pv mv fv files zt tt) (hn : 0 < pv.length) :
    ∃ res, readspecCore argsort S pv mv fv = .ok res ∧
      res.plug.length = pv.length ∧
      (∀ i, i < pv.length → res.plug[i]? = some ((files i).plug ((fv.getD i 0 - 1).toNat))) ∧
      (zt = none → res.zans = none) ∧
      (∀ t, zt = some t → ∃ l, res.zans = some l ∧ l.length = pv.length ∧
        ∀ i, i < pv.length → l[i]? = some (t i ((fv.getD i 0 - 1).toNat))) ∧
      (tt = none → res.tsobj = none) ∧
      (∀ t, tt = some t → ∃ l, res.tsobj = some l ∧ l.length = pv.length ∧
        ∀ i, i < pv.length → l[i]? = some (t i ((fv.getD i 0 - 1).toNat))) := by
  obtain ⟨w, _, _, h3⟩ := readspecCore_eq argsort hA D hn
  refine ⟨_, h3, by simp, ?_, ?_, ?_, ?_, ?_⟩
  · intro i hi
    simp only [List.getElem?_map, List.getElem?_range hi, Option.map_some]; rfl
  · intro h; simp [h]
  · intro t h
    refine ⟨(List.range pv.length).map (fun i => t i (rowOf fv i)), by simp only [h, Option.map_some],
      by simp, ?_⟩
    intro i hi
    simp only [List.getElem?_map, List.getElem?_range hi, Option.map_some]; rfl
  · intro h; simp [h]
  · intro t h
    refine ⟨(List.range pv.length).map (fun i => t i (rowOf fv i)), by simp only [h, Option.map_some],
      by simp, ?_⟩
    intro i hi
    simp only [List.getElem?_map, List.getElem?_range hi, Option.map_some]; rfl

end Main

/-! ## PROPERTY: calling conventions -/

theorem bcast_same {β} (n : Nat) (l : List β) (h : l.length = n) : bcast n l = .ok l := by
  simp [bcast, h]; rfl

theorem bcast_one {β} (n : Nat) (v : β) : bcast n [v] = .ok (List.replicate n v) := by
  unfold bcast
  split
  · rename_i h
    have : 1 = n := by simpa using h
    subst this; rfl
  · rfl

theorem normalize_vec (latest : Nat → Nat) (pv mv : List Nat) (fv : List Int)
    (h1 : mv.length = pv.length) (h2 : fv.length = pv.length) (hn : 0 < pv.length) :
    normalize latest (.vec pv) (some (.vec mv)) (.vec fv) = .ok (pv, mv, fv) := by
  have e1 : bcast fv.length pv = .ok pv := bcast_same _ _ h2.symm
  have e2 : bcast pv.length fv = .ok fv := bcast_same _ _ h2
  have e3 : bcast pv.length mv = .ok mv := bcast_same _ _ h1
  have e0 : bcast pv.length pv = .ok pv := bcast_same _ _ rfl
  have n1 : pv.length ≠ 0 := by omega
  simp only [normalize, Arg.len, Arg.toList, h1, h2, bne_self_eq_false]
  by_cases hp : pv.length > 1 <;> simp [hp, n1, e0, e2, e3, bind, Except.bind, pure, Except.pure]

theorem normalize_latest (latest : Nat → Nat) (pv : List Nat) (fv : List Int)
    (h2 : fv.length = pv.length) (hn : 0 < pv.length) :
    normalize latest (.vec pv) none (.vec fv) = .ok (pv, pv.map latest, fv) := by
  have e1 : bcast fv.length pv = .ok pv := bcast_same _ _ h2.symm
  have e2 : bcast pv.length fv = .ok fv := bcast_same _ _ h2
  have e3 : bcast pv.length (pv.map latest) = .ok (pv.map latest) := bcast_same _ _ (by simp)
  have e0 : bcast pv.length pv = .ok pv := bcast_same _ _ rfl
  have n1 : pv.length ≠ 0 := by omega
  simp only [normalize, Arg.len, Arg.toList, h2, bne_self_eq_false]
  by_cases hp : pv.length > 1 <;> simp [hp, n1, e0, e2, e3, bind, Except.bind, pure, Except.pure]

theorem normalize_scalar_plate (latest : Nat → Nat) (p m : Nat) (fv : List Int) (hn : 0 < fv.length) :
    normalize latest (.scalar p) (some (.scalar m)) (.vec fv)
      = .ok (List.replicate fv.length p, List.replicate fv.length m, fv) := by
  have e1 := bcast_one fv.length p
  have e3 := bcast_one fv.length m
  have e4 : bcast 1 [m] = .ok [m] := bcast_same _ _ rfl
  have n1 : fv.length ≠ 0 := by omega
  simp only [normalize, Arg.len, Arg.toList]
  by_cases hp : fv.length > 1
  · simp [hp, n1, e1, e3, e4, bind, Except.bind, pure, Except.pure]
  · have : fv.length = 1 := by omega
    have e2 : bcast 1 fv = .ok fv := bcast_same _ _ this
    simp [this, e2, e4, bind, Except.bind, pure, Except.pure, bcast_same 1 [p] rfl]

theorem normalize_scalar_fiber (latest : Nat → Nat) (pv mv : List Nat) (f : Int)
    (h1 : mv.length = pv.length) (hn : 0 < pv.length) :
    normalize latest (.vec pv) (some (.vec mv)) (.scalar f) = .ok (pv, mv, List.replicate pv.length f) := by
  have e1 := bcast_one pv.length f
  have e3 : bcast pv.length mv = .ok mv := bcast_same _ _ h1
  have n1 : pv.length ≠ 0 := by omega
  simp only [normalize, Arg.len, Arg.toList, h1]
  by_cases hp : pv.length > 1
  · simp [hp, n1, e1, e3, bind, Except.bind, pure, Except.pure]
  · have : pv.length = 1 := by omega
    have e2 : bcast 1 pv = .ok pv := bcast_same _ _ this
    have e5 : bcast 1 mv = .ok mv := bcast_same _ _ (by omega)
    simp [this, e2, e5, bind, Except.bind, pure, Except.pure, bcast_same 1 [f] rfl]

theorem normalize_scalar (latest : Nat → Nat) (p m : Nat) (f : Int) :
    normalize latest (.scalar p) (some (.scalar m)) (.scalar f) = .ok ([p], [m], [f]) := by
  rfl

/-- PROPERTY.  What "request i" is under each calling convention (readspec 863-915): equal-length
vectors are taken as they are (with `mjd=None`: the latest MJD of each plate), a scalar plate-MJD is
repeated for every fibre, a scalar fibre for every plate-MJD, three scalars are one request.
Together with `readspec_row_i` / `loglam_rows` / `readspec_tables` (which hold for every request
vector) this gives the row-i statement for `readspec` itself under all these conventions. -/
theorem normalize_spec (latest : Nat → Nat) :
    (∀ (pv mv : List Nat) (fv : List Int), mv.length = pv.length → fv.length = pv.length → 0 < pv.length →
      normalize latest (.vec pv) (some (.vec mv)) (.vec fv) = .ok (pv, mv, fv)) ∧
    (∀ (pv : List Nat) (fv : List Int), fv.length = pv.length → 0 < pv.length →
      normalize latest (.vec pv) none (.vec fv) = .ok (pv, pv.map latest, fv)) ∧
    (∀ (p m : Nat) (fv : List Int), 0 < fv.length →
      normalize latest (.scalar p) (some (.scalar m)) (.vec fv)
        = .ok (List.replicate fv.length p, List.replicate fv.length m, fv)) ∧
    (∀ (pv mv : List Nat) (f : Int), mv.length = pv.length → 0 < pv.length →
      normalize latest (.vec pv) (some (.vec mv)) (.scalar f) = .ok (pv, mv, List.replicate pv.length f)) ∧
    (∀ (p m : Nat) (f : Int),
      normalize latest (.scalar p) (some (.scalar m)) (.scalar f) = .ok ([p], [m], [f])) :=
  ⟨normalize_vec latest, normalize_latest latest, normalize_scalar_plate latest,
   normalize_scalar_fiber latest, normalize_scalar latest⟩

/-- the public entry point under the plain vector convention is `readspecCore` on the same vectors, so
`readspec_row_i`, `loglam_rows` and `readspec_tables` speak about `readspec` itself -/
theorem readspec_vec {α τ : Type} [Scalar α] (argsort : List Nat → List Nat) (S : Survey α τ)
    (files : List (Nat × Nat)) (pv mv : List Nat) (fv : List Int)
    (h1 : mv.length = pv.length) (h2 : fv.length = pv.length) (hn : 0 < pv.length) :
    readspec argsort S files (.vec pv) (some (.vec mv)) (.vec fv) = readspecCore argsort S pv mv fv := by
  simp only [readspec, normalize_vec (latestMjd files) pv mv fv h1 h2 hn]
  rfl

/-! ## non-vacuity: the hypotheses are satisfiable by a non-trivial request -/

/-- a survey in which plate p (any MJD) has p+2 pixels, 3 fibres, no spZbest, a photoPlate table -/
def exFile (p : Nat) : PlateFile Rat Nat :=
  ⟨p + 2, 3, 35/10, 1/10000, fun h r => List.replicate (p + 2) ((h + 10 * r : Nat) : Rat), fun r => r, none,
    some (fun r => 100 + r)⟩

/-- four requests, scrambled: two plates, plate 3 at two MJDs, a repeated request, different pixel counts -/
example : Domain (fun p _ => some (exFile p)) [3, 1, 3, 1] [52000, 51999, 51000, 51999] [2, 1, 3, 1]
    (fun i => exFile ([3, 1, 3, 1].getD i 0)) none (some (fun _ r => 100 + r)) where
  len_mv := rfl
  len_fv := rfl
  mjd_lt := by decide
  file := fun _ _ => rfl
  fiber := by decide
  rect := by intro i _ h _ _ r _; simp [exFile]
  zans := fun _ _ => rfl
  tsobj := fun _ _ => rfl

example : IsArgsort argsortImpl := argsortImpl_isArgsort

/-- spec_append of the repository test, positive and negative shift, evaluated by the model -/
example : (specAppend (0 : Int) ⟨3, [[1, 1, 1], [1, 1, 1]]⟩ ⟨3, [[2, 2, 2]]⟩ (-2)).rows
    = [[0, 0, 1, 1, 1], [0, 0, 1, 1, 1], [2, 2, 2, 0, 0]] := by decide
example : (specAppend (0 : Int) ⟨3, [[1, 1, 1], [1, 1, 1]]⟩ ⟨4, [[2, 2, 2, 2]]⟩ 1).rows
    = [[1, 1, 1, 0, 0], [1, 1, 1, 0, 0], [0, 2, 2, 2, 2]] := by decide

end PydlVerif.C16

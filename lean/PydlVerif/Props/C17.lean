/-
C17 property theorems: rejection, mask interpolation and sky masking act on
exactly the intended pixels.  Helper lemmas live in PydlVerif/Lemmas/Reject.lean
and PydlVerif/Lemmas/Interp.lean; the theorems listed in harness/props/c17.py follow.
All statements are over an arbitrary linearly ordered field `K` (exact arithmetic).
-/
import PydlVerif.Lemmas.Reject
import PydlVerif.Lemmas.Interp
import Mathlib.Data.Rat.Floor
namespace PydlVerif.C17
open PydlVerif PydlVerif.Reject PydlVerif.Interp

section reject
variable {K : Type} [Field K] [LinearOrder K] [IsStrictOrderedRing K] [FloorRing K]
attribute [local instance] fieldScalar
attribute [-instance] Scalar.instOfNat Scalar.instOfScientific

theorem zipWith_and_true {β : Type} (f : β → Bool) (l : List Bool) (px : List β) (i : Nat)
    (hi : i < px.length) :
    (List.zipWith (fun a p => a && f p) l px)[i]? = some true ↔
      l[i]? = some true ∧ f px[i] = true := by
  rw [List.getElem?_zipWith, List.getElem?_eq_getElem hi]
  cases l[i]? with
  | none => simp
  | some a => cases a <;> simp

/-- **djs_reject, the output mask** (1-D data, no `maxrej`; `lower, upper ≥ 0`, `maxdev > 0`,
`sigma ≥ 0`).  Pixel `i` stays good exactly when it is not excluded by `inmask`, nor - if
`sticky` - by the previous `outmask`, and no pixel `j` within `grow` of it is newly rejected;
`j` is newly rejected when it is itself not excluded and its residual `d - m` is below
`-lower*sigma`, above `upper*sigma` (with `sigma`, or `(d-m)*sqrt(invvar)` against
`-lower` / `upper` when `invvar` is given) or `|d - m| > maxdev`. -/
theorem reject_mask (sqrt : K → K) (o : Opts K) (px : List (Pix K))
    (hlo : ∀ lo, o.lower = some lo → 0 ≤ lo) (hup : ∀ up, o.upper = some up → 0 ≤ up)
    (hmd : ∀ md, o.maxdev = some md → 0 < md)
    (hs : ∀ p ∈ px, o.useSigma = true → 0 ≤ p.s) :
    (djsRejectPix sqrt o px).1.length = px.length ∧
    ∀ i (hi : i < px.length), ((djsRejectPix sqrt o px).1[i]? = some true ↔
      (Eligible o px[i] ∧
        ¬ ∃ j, ∃ hj : j < px.length, i ≤ j + o.grow ∧ j ≤ i + o.grow ∧ IsBad sqrt o px[j])) := by
  have hlen0 : (growMask o.grow (px.map (fun p => isZero (badness sqrt o p)))).length = px.length := by
    rw [growMask_length, List.length_map]
  constructor
  · unfold djsRejectPix
    simp only
    split <;> split <;> simp [List.length_zipWith, hlen0]
  · intro i hi
    have hg : (growMask o.grow (px.map (fun p => isZero (badness sqrt o p))))[i]? = some true ↔
        ¬ ∃ j, ∃ hj : j < px.length, i ≤ j + o.grow ∧ j ≤ i + o.grow ∧ IsBad sqrt o px[j] := by
      rw [growMask_true _ _ _ (by rw [List.length_map]; exact hi)]
      simp only [List.length_map, List.getElem?_map]
      constructor
      · rintro h ⟨j, hj, h1, h2, hb⟩
        have := h j hj h1 h2
        rw [List.getElem?_eq_getElem hj] at this
        simp only [Option.map_some, Option.some.injEq] at this
        exact (badness_zero_iff sqrt o px[j] hlo hup hmd (hs _ (List.getElem_mem hj))).1 this hb
      · intro h j hj h1 h2
        rw [List.getElem?_eq_getElem hj]
        simp only [Option.map_some, Option.some.injEq]
        exact (badness_zero_iff sqrt o px[j] hlo hup hmd (hs _ (List.getElem_mem hj))).2
          (fun hb => h ⟨j, hj, h1, h2, hb⟩)
    unfold djsRejectPix Eligible
    simp only
    cases h1 : o.hasIn <;> cases h2 : o.sticky <;>
      simp only [↓reduceIte, Bool.false_eq_true, zipWith_and_true _ _ _ _ hi, hg, false_imp_iff,
        true_imp_iff, true_and, and_true, and_assoc] <;> try tauto

/-- the invvar tests are the sigma tests with `sigma = 1/sqrt(invvar)` wherever `sqrt(invvar) > 0` -/
theorem reject_invvar_units (diff lim s : K) (hs : 0 < s) :
    (diff * s < -lim ↔ diff < -(lim * (1 / s))) ∧ (diff * s > lim ↔ diff > lim * (1 / s)) := by
  constructor
  · rw [mul_one_div, ← neg_div, lt_div_iff₀ hs]
  · rw [mul_one_div, gt_iff_lt, gt_iff_lt, div_lt_iff₀ hs]

theorem zipWith_beq_all {β : Type} (f : β → Bool) (l : List Bool) (px : List β)
    (h : l.length = px.length) :
    List.all (List.zipWith (fun a p => a == f p) l px) id = true ↔ l = px.map f := by
  induction l generalizing px with
  | nil => cases px <;> simp_all
  | cons a l ih =>
    cases px with
    | nil => simp at h
    | cons p px =>
      simp only [List.length_cons, Nat.add_right_cancel_iff] at h
      simp [ih px h]

/-- **qdone**: `djs_reject` reports completion exactly when the new mask equals the previous one -/
theorem qdone_iff_unchanged (sqrt : K → K) (o : Opts K) (px : List (Pix K)) :
    (djsRejectPix sqrt o px).2 = true ↔ (djsRejectPix sqrt o px).1 = px.map (·.prev) := by
  have hlen : (djsRejectPix sqrt o px).1.length = px.length := by
    have hlen0 : (growMask o.grow (px.map (fun p => isZero (badness sqrt o p)))).length = px.length := by
      rw [growMask_length, List.length_map]
    unfold djsRejectPix
    simp only
    split <;> split <;> simp [List.length_zipWith, hlen0]
  exact zipWith_beq_all (·.prev) _ px hlen

/-- **the end of `djs_reject` from any working array** (`newmask = badness == 0`, grow in the flattened
array - repair 0812fab -, `& inmask`, `& outmask` when sticky): pixel `i` (flat C-order position, data of any shape) stays good
iff it is not excluded and no pixel `j` within `grow` of it has non-zero badness -/
theorem finishMask_spec (o : Opts K) (px : List (Pix K)) (bad : List K) (hlen : bad.length = px.length) :
    (finishMask o px bad).1.length = px.length ∧
    ∀ i (hi : i < px.length), ((finishMask o px bad).1[i]? = some true ↔
      (Eligible o px[i] ∧
        ¬ ∃ j, ∃ hj : j < px.length, i ≤ j + o.grow ∧ j ≤ i + o.grow ∧ bad[j] ≠ 0)) := by
  have hlen0 : (growMask o.grow (bad.map isZero)).length = px.length := by
    rw [growMask_length, List.length_map, hlen]
  constructor
  · unfold finishMask
    simp only
    split <;> split <;> simp [List.length_zipWith, hlen0]
  · intro i hi
    have hg : (growMask o.grow (bad.map isZero))[i]? = some true ↔
        ¬ ∃ j, ∃ hj : j < px.length, i ≤ j + o.grow ∧ j ≤ i + o.grow ∧ bad[j] ≠ 0 := by
      rw [growMask_true _ _ _ (by rw [List.length_map]; omega)]
      simp only [List.length_map, List.getElem?_map]
      constructor
      · rintro h ⟨j, hj, h1, h2, hb⟩
        have := h j (by omega) h1 h2
        rw [List.getElem?_eq_getElem (by omega : j < bad.length)] at this
        simp only [Option.map_some, Option.some.injEq] at this
        exact hb ((isZero_iff _).1 this)
      · intro h j hj h1 h2
        rw [List.getElem?_eq_getElem hj]
        simp only [Option.map_some, Option.some.injEq]
        cases hz : isZero bad[j] with
        | true => rfl
        | false =>
          exfalso
          refine h ⟨j, by omega, h1, h2, fun h0 => ?_⟩
          rw [(isZero_iff _).2 h0] at hz
          exact Bool.noConfusion hz
    unfold finishMask Eligible
    simp only
    cases h1 : o.hasIn <;> cases h2 : o.sticky <;>
      simp only [↓reduceIte, Bool.false_eq_true, zipWith_and_true _ _ _ _ hi, hg, false_imp_iff,
        true_imp_iff, true_and, and_true, and_assoc] <;> try tauto

/-- the end of the routine applied to the code's working array is `djsRejectPix` -/
theorem finishMask_badness (sqrt : K → K) (o : Opts K) (px : List (Pix K)) :
    finishMask o px (px.map (badness sqrt o)) = djsRejectPix sqrt o px := by
  unfold finishMask djsRejectPix
  simp only [List.map_map, Function.comp_def]

/-- **djs_reject on data of any shape, `grow` included** (the code after repair 0812fab works on the
C-order flattened arrays; `px` is that flattening): the statement of `reject_mask` holds with `i`, `j` flat
positions - the neighbours of a rejected point are its neighbours in the flattened array, as in the IDL
original (`where` returns flat indices) -/
theorem reject_mask_nd (sqrt : K → K) (o : Opts K) (px : List (Pix K))
    (hlo : ∀ lo, o.lower = some lo → 0 ≤ lo) (hup : ∀ up, o.upper = some up → 0 ≤ up)
    (hmd : ∀ md, o.maxdev = some md → 0 < md)
    (hs : ∀ p ∈ px, o.useSigma = true → 0 ≤ p.s) :
    (finishMask o px (px.map (badness sqrt o))).1.length = px.length ∧
    ∀ i (hi : i < px.length), ((finishMask o px (px.map (badness sqrt o))).1[i]? = some true ↔
      (Eligible o px[i] ∧
        ¬ ∃ j, ∃ hj : j < px.length, i ≤ j + o.grow ∧ j ≤ i + o.grow ∧ IsBad sqrt o px[j])) := by
  rw [finishMask_badness]
  exact reject_mask sqrt o px hlo hup hmd hs

/-- `qdone` from any working array: true iff the returned mask equals the previous `outmask` -/
theorem qdone_iff_unchanged_full (o : Opts K) (px : List (Pix K)) (bad : List K) (hlen : bad.length = px.length) :
    (finishMask o px bad).2 = true ↔ (finishMask o px bad).1 = px.map (·.prev) :=
  zipWith_beq_all (fun p : Pix K => p.prev) _ px (finishMask_spec o px bad hlen).1

/-- **without `maxrej` the options `groupdim`, `groupsize`, `groupbadpix` are inert** (this is how `iterfit` and
`combine1fiber` call `djs_reject(..., groupbadpix=True)`; in the code the checks and the block that read them are
under `if maxrej is not None:`): for any two settings `g`, `g'` of the group options and any shape the routine
returns the same, namely the end of the routine applied to the working array of the flattened data -/
theorem groupbadpix_without_maxrej (sqrt : K → K) (o : Opts K) (g g' : GroupOpts) (shape : List Nat)
    (data mdl s : List K) (hm : mdl.length = data.length) (hsl : s.length = data.length) :
    djsRejectFull sqrt o g shape data (some mdl) none none s =
      djsRejectFull sqrt o g' shape data (some mdl) none none s ∧
    ∃ px : List (Pix K), px.length = data.length ∧
      djsRejectFull sqrt o g shape data (some mdl) none none s =
        .ok (finishMask { o with hasIn := false } px (px.map (badness sqrt { o with hasIn := false }))) := by
  refine ⟨rfl, ?_⟩
  have h : ∃ px : List (Pix K),
      djsRejectFull sqrt o g shape data (some mdl) none none s =
        .ok (djsRejectPix sqrt { o with hasIn := false } px) ∧
      px.length = data.length := by
    unfold djsRejectFull djsReject
    simp only [hm, hsl, ne_eq, not_true_eq_false, if_false, bind, Except.bind, pure, Except.pure, Option.isSome_none]
    exact ⟨_, rfl, by simp⟩
  obtain ⟨px, h1, h2⟩ := h
  exact ⟨px, h2, by rw [finishMask_badness]; exact h1⟩

/-- the hypotheses of `reject_mask` are satisfiable by a pixel that is rejected:
`data = 5`, `model = 0`, `sigma = 1`, `upper = 3` -/
example : ∃ (o : Opts ℚ) (p : Pix ℚ), (∀ lo, o.lower = some lo → 0 ≤ lo) ∧
    (∀ up, o.upper = some up → 0 ≤ up) ∧ (∀ md, o.maxdev = some md → 0 < md) ∧
    (o.useSigma = true → 0 ≤ p.s) ∧ IsBad (fun x => x) o p := by
  refine ⟨⟨true, none, some 3, none, false, false, 1⟩, ⟨5, 0, 1, true, true⟩, ?_, ?_, ?_, ?_, ?_⟩
  · intro lo h; cases h
  · intro up h; cases h; norm_num
  · intro md h; cases h
  · intro _; norm_num
  · refine ⟨⟨fun h => Bool.noConfusion h, fun h => Bool.noConfusion h⟩, Or.inr (Or.inl ⟨3, rfl, ?_⟩)⟩
    show (5 : ℚ) - 0 > 3 * 1
    norm_num

end reject

section sky
variable {K : Type} [Field K] [LinearOrder K] [IsStrictOrderedRing K] [FloorRing K]
attribute [local instance] fieldScalar
attribute [-instance] Scalar.instOfNat Scalar.instOfScientific

/-- pixel `j` of the row carries BADSKYCHI (bit 27) or REDMONSTER (bit 28) in `ormask` -/
def FlaggedAt (ormask : Option (List Int)) (j : Nat) : Prop :=
  ∃ om m, ormask = some om ∧ om[j]? = some m ∧ flagged m = true

theorem skyBad_spec (ormask : Option (List Int)) (n g : Nat)
    (hlen : ∀ om, ormask = some om → om.length = n) (i : Nat) (hi : i < n) :
    ((∃ j, i ≤ j + g ∧ j ≤ i + g ∧ FlaggedAt ormask j) → (skyBad ormask n g)[i]? = some 1) ∧
    ((¬ ∃ j, i ≤ j + g ∧ j ≤ i + g ∧ FlaggedAt ormask j) → (skyBad ormask n g)[i]? = some 0) := by
  -- the undilated mask
  obtain ⟨b, hb, hbl, hb01, hbf⟩ : ∃ b : List Int, b = skyBad0 ormask n ∧
      b.length = n ∧ (∀ x ∈ b, x = 0 ∨ x = 1) ∧ (∀ j : Nat, b[j]? = some 1 ↔ FlaggedAt ormask j) := by
    refine ⟨_, rfl, ?_, ?_, ?_⟩
    · cases ormask with
      | none => simp [skyBad0]
      | some om => simp [skyBad0, hlen om rfl]
    · cases ormask with
      | none => intro x hx; left; exact (List.mem_replicate.1 hx).2
      | some om =>
        intro x hx
        simp only [skyBad0, List.mem_map] at hx
        obtain ⟨m, _, rfl⟩ := hx
        split <;> simp
    · intro j
      cases ormask with
      | none =>
        simp only [skyBad0, FlaggedAt, List.getElem?_replicate]
        constructor
        · intro h; split at h <;> simp at h
        · rintro ⟨om, m, h, _⟩; simp at h
      | some om =>
        simp only [skyBad0, FlaggedAt, List.getElem?_map]
        constructor
        · intro h
          cases hm : om[j]? with
          | none => rw [hm] at h; simp at h
          | some m =>
            rw [hm] at h
            refine ⟨om, m, rfl, hm, ?_⟩
            cases hf : flagged m
            · simp [hf] at h
            · rfl
        · rintro ⟨om', m, h1, h2, h3⟩
          cases h1
          rw [h2]; simp [h3]
  have hskb : skyBad ormask n g = if g > 0 then
      (smoothInt (b.map (· * ((2 * g + 1 : Nat) : Int))) (2 * g + 1) true).map
        (fun v => if v > 0 then 1 else 0) else b := by
    rw [hb]; rfl
  rw [hskb]
  have hib : i < b.length := by omega
  by_cases hg : g > 0
  · rw [if_pos hg]
    obtain ⟨v, hv, hiff⟩ := smoothInt_dilate b hb01 g hg i hib
    rw [List.getElem?_map, hv]
    simp only [Option.map_some, hbf] at hiff ⊢
    constructor
    · intro h; rw [if_pos (hiff.2 h)]
    · intro h; rw [if_neg (fun hp => h (hiff.1 hp))]
  · rw [if_neg hg]
    have hg0 : g = 0 := by omega
    subst hg0
    constructor
    · rintro ⟨j, h1, h2, hf⟩
      have : j = i := by omega
      subst this
      exact (hbf j).2 hf
    · intro h
      have hne : b[i]? ≠ some 1 := fun hc => h ⟨i, by omega, by omega, (hbf i).1 hc⟩
      rw [List.getElem?_eq_getElem hib] at hne ⊢
      rcases hb01 b[i] (List.getElem_mem hib) with h0 | h1
      · rw [h0]
      · rw [h1] at hne; exact absurd rfl hne

/-- **skymask**: within one row the inverse variance is set to zero exactly at the pixels that
lie within `ngrow` of a pixel flagged BADSKYCHI or REDMONSTER; every other pixel is unchanged.
(`ormask = none`: nothing is flagged.) -/
theorem skymask_dilate (invvar : List K) (ormask : Option (List Int)) (g : Nat)
    (hlen : ∀ om, ormask = some om → om.length = invvar.length) (i : Nat) (hi : i < invvar.length) :
    ((∃ j, i ≤ j + g ∧ j ≤ i + g ∧ FlaggedAt ormask j) →
        (skymaskRow invvar ormask g)[i]? = some 0) ∧
    ((¬ ∃ j, i ≤ j + g ∧ j ≤ i + g ∧ FlaggedAt ormask j) →
        (skymaskRow invvar ormask g)[i]? = some invvar[i]) := by
  obtain ⟨h1, h0⟩ := skyBad_spec ormask invvar.length g hlen i hi
  unfold skymaskRow
  rw [List.getElem?_zipWith, List.getElem?_eq_getElem hi]
  constructor
  · intro h; rw [h1 h]; simp
  · intro h; rw [h0 h]; simp

/-- non-vacuity: bit 27 is recognised, also in a negative (sign-extended) value; other bits are not -/
example : flagged (2 ^ 27) = true ∧ flagged (-1) = true ∧ flagged (2 ^ 26 + 2 ^ 29) = false := by decide

end sky
section interp
variable {K : Type} [Field K] [LinearOrder K] [IsStrictOrderedRing K] [FloorRing K]
attribute [local instance] fieldScalar
attribute [-instance] Scalar.instOfNat Scalar.instOfScientific

theorem ptsIdx_length (y : List K) (bad : List Bool) : (ptsIdx y bad).length = y.length := by
  simp [ptsIdx]

theorem ptsIdx_get (y : List K) (bad : List Bool) (hlen : bad.length = y.length) (i : Nat)
    (hi : i < y.length) :
    (ptsIdx y bad)[i]'(by rw [ptsIdx_length]; exact hi) = ⟨(i : K), y[i], bad[i]⟩ := by
  simp only [ptsIdx, List.getElem_map, List.getElem_range, scalar_ofNat, scalar_lit, Nat.cast_zero,
    List.getD_eq_getElem?_getD, List.getElem?_eq_getElem hi,
    List.getElem?_eq_getElem (show i < bad.length by omega), Option.getD_some]

theorem ptsIdx_sorted (y : List K) (bad : List Bool) (hlen : bad.length = y.length) :
    Sorted (ptsIdx y bad) := by
  intro k l hkl hl
  rw [ptsIdx_length] at hl
  rw [ptsIdx_get y bad hlen k (by omega), ptsIdx_get y bad hlen l hl]
  exact Nat.cast_lt.2 hkl

/-- **only masked samples change** (`djs_maskinterp1`, index mode, any `const`) -/
theorem maskinterp_only_masked (y : List K) (bad : List Bool) (const : Bool)
    (hlen : bad.length = y.length) (i : Nat) (hi : i < y.length) (g : bad[i] = false) :
    (maskinterp1 y bad const)[i]? = some y[i] := by
  have := core_only_masked (ptsIdx y bad) const i (by rw [ptsIdx_length]; exact hi)
    (by rw [ptsIdx_get y bad hlen i hi]; exact g)
  rw [ptsIdx_get y bad hlen i hi] at this
  exact this

/-- **linear interpolation between the nearest unmasked neighbours** (index mode):
`a < i < b`, `a` and `b` unmasked, everything between them masked -/
theorem maskinterp_linear (y : List K) (bad : List Bool) (const : Bool) (hlen : bad.length = y.length)
    (a i b : Nat) (hai : a < i) (hib : i < b) (hb : b < y.length) (ga : bad[a] = false)
    (gb : bad[b] = false) (hmid : ∀ k (_ : a < k) (_ : k < b), bad[k] = true) :
    (maskinterp1 y bad const)[i]? =
      some ((y[b] - y[a]) / ((b : K) - (a : K)) * ((i : K) - (a : K)) + y[a]) := by
  have hb' : b < (ptsIdx y bad).length := by rw [ptsIdx_length]; exact hb
  have := core_linear (ptsIdx y bad) (ptsIdx_sorted y bad hlen) const a i b hai hib hb'
    (by rw [ptsIdx_get y bad hlen a (by omega)]; exact ga)
    (by rw [ptsIdx_get y bad hlen b hb]; exact gb)
    (by intro k h1 h2; rw [ptsIdx_get y bad hlen k (by omega)]; exact hmid k h1 h2)
  rw [ptsIdx_get y bad hlen a (by omega), ptsIdx_get y bad hlen b hb,
    ptsIdx_get y bad hlen i (by omega)] at this
  exact this

/-- **end values are held constant**: masked samples before the first (after the last) unmasked one
take its value, with or without `const` -/
theorem ends_constant (y : List K) (bad : List Bool) (const : Bool) (hlen : bad.length = y.length) :
    (∀ a (ha : a < y.length), bad[a] = false → (∀ k (_ : k < a), bad[k] = true) →
      ∀ i, i < a → (maskinterp1 y bad const)[i]? = some y[a]) ∧
    (∀ b (hb : b < y.length), bad[b] = false → (∀ k (_ : b < k) (_ : k < y.length), bad[k] = true) →
      ∀ i, b < i → i < y.length → (maskinterp1 y bad const)[i]? = some y[b]) := by
  constructor
  · intro a ha ga hpre i hi
    have := core_left_end (ptsIdx y bad) (ptsIdx_sorted y bad hlen) const a
      (by rw [ptsIdx_length]; exact ha) (by rw [ptsIdx_get y bad hlen a ha]; exact ga)
      (by intro k hk; rw [ptsIdx_get y bad hlen k (by omega)]; exact hpre k hk) i hi
    rw [ptsIdx_get y bad hlen a ha] at this
    exact this
  · intro b hb gb hpost i hbi hi
    have := core_right_end (ptsIdx y bad) (ptsIdx_sorted y bad hlen) const b
      (by rw [ptsIdx_length]; exact hb) (by rw [ptsIdx_get y bad hlen b hb]; exact gb)
      (by intro k h1 hk; rw [ptsIdx_length] at hk; rw [ptsIdx_get y bad hlen k hk]; exact hpost k h1 hk)
      i hbi (by rw [ptsIdx_length]; exact hi)
    rw [ptsIdx_get y bad hlen b hb] at this
    exact this

/-- **a single unmasked sample**: its value is returned everywhere -/
theorem single_good (y : List K) (bad : List Bool) (const : Bool) (hlen : bad.length = y.length)
    (a : Nat) (ha : a < y.length) (ga : bad[a] = false)
    (honly : ∀ k (_ : k < y.length), k ≠ a → bad[k] = true) (i : Nat) (hi : i < y.length) :
    (maskinterp1 y bad const)[i]? = some y[a] := by
  have := core_single_good (ptsIdx y bad) const a (by rw [ptsIdx_length]; exact ha)
    (by rw [ptsIdx_get y bad hlen a ha]; exact ga)
    (by intro k hk hne; rw [ptsIdx_length] at hk; rw [ptsIdx_get y bad hlen k hk]; exact honly k hk hne)
    i (by rw [ptsIdx_length]; exact hi)
  rw [ptsIdx_get y bad hlen a ha] at this
  exact this

theorem interp_isZero_iff (a : K) : (Interp.isZeroI a = true) ↔ a = 0 := by
  simp [Interp.isZeroI, Scalar.beq]

/-- **aesthetics changes flux only where the inverse variance is zero** (`invvar ≥ 0`;
methods traditional, noconst, mean, nothing; `gm` is numpy's mean of the good flux values) -/
theorem aesthetics_only_bad (flux invvar : List K) (m : Method) (gm : K)
    (hlen : invvar.length = flux.length) (hnn : ∀ v ∈ invvar, 0 ≤ v)
    (hm : m = .traditional ∨ m = .noconst ∨ m = .mean ∨ m = .nothing) :
    ∃ out, aesthetics flux invvar m gm = .ok out ∧
      ∀ i (hi : i < flux.length), invvar[i] ≠ 0 → out[i]? = some flux[i] := by
  have hbl : (invvar.map Interp.isZeroI).length = flux.length := by simp [hlen]
  have hbi : ∀ i (hi : i < flux.length), invvar[i] ≠ 0 →
      (invvar.map Interp.isZeroI)[i]'(by omega) = false := by
    intro i hi hne
    rw [List.getElem_map]
    cases h : Interp.isZeroI invvar[i] with
    | true => exact absurd ((interp_isZero_iff _).1 h) hne
    | false => rfl
  unfold aesthetics
  simp only
  split
  · rcases hm with rfl | rfl | rfl | rfl
    · exact ⟨_, rfl, fun i hi hne => maskinterp_only_masked flux _ true hbl i hi (hbi i hi hne)⟩
    · exact ⟨_, rfl, fun i hi hne => maskinterp_only_masked flux _ false hbl i hi (hbi i hi hne)⟩
    · refine ⟨_, rfl, fun i hi hne => ?_⟩
      have hi' : i < invvar.length := by omega
      have hz : (flux.zip invvar)[i]? = some (flux[i], invvar[i]) :=
        List.getElem?_zip_eq_some.2 ⟨List.getElem?_eq_getElem hi, List.getElem?_eq_getElem hi'⟩
      rw [List.getElem?_map, hz]
      have hpos : invvar[i] > 0 := lt_of_le_of_ne (hnn _ (List.getElem_mem hi')) (Ne.symm hne)
      simp [hpos]
    · exact ⟨_, rfl, fun i hi _ => List.getElem?_eq_getElem hi⟩
  · exact ⟨_, rfl, fun i hi _ => List.getElem?_eq_getElem hi⟩

/-- **the values under the mask do not matter** (as long as one sample is unmasked; with none the
input is returned unchanged): two inputs that agree on the unmasked samples give the same output -/
theorem independent_of_masked_values (y y' : List K) (bad : List Bool) (const : Bool)
    (hl : bad.length = y.length) (hl' : y'.length = y.length)
    (hsame : ∀ i (hi : i < y.length), bad[i] = false → y[i] = y'[i])
    (hgood : ∃ i, ∃ hi : i < y.length, bad[i] = false) :
    maskinterp1 y bad const = maskinterp1 y' bad const := by
  obtain ⟨g, hg, hgb⟩ := hgood
  have hg1 : ∃ p ∈ ptsIdx y bad, p.bad = false :=
    ⟨_, List.getElem_mem (by rw [ptsIdx_length]; exact hg), by rw [ptsIdx_get y bad hl g hg]; exact hgb⟩
  have hg2 : ∃ p ∈ ptsIdx y' bad, p.bad = false :=
    ⟨(ptsIdx y' bad)[g]'(by rw [ptsIdx_length]; omega), List.getElem_mem _,
      by rw [ptsIdx_get y' bad (by omega) g (by omega)]; exact hgb⟩
  unfold maskinterp1
  rw [← core_erase _ const hg1, ← core_erase _ const hg2]
  congr 1
  apply List.ext_getElem
  · simp [eraseY, ptsIdx_length, hl']
  · intro i h1 h2
    simp only [eraseY, List.length_map, ptsIdx_length] at h1 h2
    simp only [eraseY, List.getElem_map]
    rw [ptsIdx_get y bad hl i h1, ptsIdx_get y' bad (by omega) i h2]
    cases hb : bad[i]
    · simp [hsame i h1 hb]
    · simp

theorem interpCore_length (t : List (Pt K)) (const : Bool) : (interpCore t const).length = t.length := by
  unfold interpCore
  split
  · simp
  · split
    · simp
    · split
      · simp
      · cases const <;> simp [constEnds]

/-- **x mode**: `djs_maskinterp1(yval, mask, xval)` works on the samples in the order
`ii = xval.argsort()` and writes the results back through `ii`: the output at `ii[p]` is the
`p`-th value of the interpolation over the sorted samples.  (`ii` without repetition, entries `< n`.) -/
theorem maskinterp_x_writeback (y : List K) (bad : List Bool) (x : List K) (ii : List Nat) (const : Bool)
    (hnd : ii.Nodup) (hlt : ∀ k ∈ ii, k < y.length) (p : Nat) (hp : p < ii.length) :
    (maskinterp1X y bad x ii const)[ii[p]]? = (interpCore (ptsX y bad x ii) const)[p]? := by
  have hk := hlt _ (List.getElem_mem hp)
  have hlen : (interpCore (ptsX y bad x ii) const).length = ii.length := by
    rw [interpCore_length]; simp [ptsX]
  unfold maskinterp1X
  simp only
  rw [List.getElem?_map, List.getElem?_range hk, Option.map_some, hnd.idxOf_getElem p hp,
    List.getD_eq_getElem?_getD, List.getElem?_eq_getElem (by omega)]
  rfl

/-- **x mode, linear interpolation in x between the nearest unmasked neighbours**: with the
samples `t` in increasing-x order (contract of argsort: `Sorted t`), a masked sample at sorted
position `p` between the unmasked positions `a < p < b` (all between masked) becomes the linear
interpolation in `x`; the unmasked samples are unchanged -/
theorem maskinterp_x_linear (y : List K) (bad : List Bool) (x : List K) (ii : List Nat) (const : Bool)
    (hnd : ii.Nodup) (hlt : ∀ k ∈ ii, k < y.length) (hs : Sorted (ptsX y bad x ii))
    (a p b : Nat) (hap : a < p) (hpb : p < b) (hb : b < (ptsX y bad x ii).length)
    (ga : ((ptsX y bad x ii)[a]'(by omega)).bad = false) (gb : (ptsX y bad x ii)[b].bad = false)
    (hmid : ∀ k (_ : a < k) (h2 : k < b), ((ptsX y bad x ii)[k]'(by omega)).bad = true) :
    (maskinterp1X y bad x ii const)[ii[p]'(by simp [ptsX] at hb; omega)]? =
      some (((ptsX y bad x ii)[b].y - ((ptsX y bad x ii)[a]'(by omega)).y) /
        ((ptsX y bad x ii)[b].x - ((ptsX y bad x ii)[a]'(by omega)).x) *
        (((ptsX y bad x ii)[p]'(by omega)).x - ((ptsX y bad x ii)[a]'(by omega)).x) +
        ((ptsX y bad x ii)[a]'(by omega)).y) ∧
    (∀ q (hq : q < ii.length), ((ptsX y bad x ii)[q]'(by simp [ptsX]; exact hq)).bad = false →
      (maskinterp1X y bad x ii const)[ii[q]]? = some ((ptsX y bad x ii)[q]'(by simp [ptsX]; exact hq)).y) := by
  have hl : (ptsX y bad x ii).length = ii.length := by simp [ptsX]
  constructor
  · rw [maskinterp_x_writeback y bad x ii const hnd hlt p (by omega)]
    exact core_linear _ hs const a p b hap hpb hb ga gb hmid
  · intro q hq hg
    rw [maskinterp_x_writeback y bad x ii const hnd hlt q hq]
    exact core_only_masked _ const q (by omega) hg

/-- **the axis loops** (index mode, 2-D and 3-D, C-order flattened arrays): with IDL-style
`axis = a` every output element `p` is element `t` of `djs_maskinterp1` applied to the line through
`p` along numpy axis `ndim-1-a` (`lineOf` gives stride, length, position `t` and base of that line) -/
theorem maskinterp_axis_line (argsort : List K → List Nat) (shape : List Nat) (y : List K)
    (bad : List Bool) (a : Nat) (const : Bool) (hnd : shape.length = 2 ∨ shape.length = 3)
    (ha : a < shape.length) (p : Nat) (hp : p < y.length) :
    ∃ out, maskinterp argsort shape shape none y bad [] (some (a : Int)) const = .ok out ∧
      out[p]? = some ((maskinterp1
        (gather 0 y.toArray (lineOf shape (shape.length - 1 - a) p).2.2.2
          (lineOf shape (shape.length - 1 - a) p).1 (lineOf shape (shape.length - 1 - a) p).2.1)
        (gather false bad.toArray (lineOf shape (shape.length - 1 - a) p).2.2.2
          (lineOf shape (shape.length - 1 - a) p).1 (lineOf shape (shape.length - 1 - a) p).2.1)
        const).getD (lineOf shape (shape.length - 1 - a) p).2.2.1 0) := by
  have h1 : (shape.length == 1) = false := by
    rcases hnd with h | h <;> rw [h] <;> rfl
  have h2 : (shape.length != 2 && shape.length != 3) = false := by
    rcases hnd with h | h <;> rw [h] <;> rfl
  have h3 : ¬ ((a : Int) < 0 ∨ (a : Int) > (shape.length : Int) - 1) := by omega
  unfold maskinterp
  simp only [ne_eq, not_true_eq_false, if_false, bind, Except.bind, pure, Except.pure, h1,
    Bool.false_eq_true, h3, h2, Int.toNat_natCast]
  refine ⟨_, rfl, ?_⟩
  rw [List.getElem?_map, List.getElem?_range hp]
  simp only [Option.map_some, scalar_lit, Nat.cast_zero]

/-- **x mode, end values are held constant**: with the samples `t` in increasing-x order, the masked samples
before the first (after the last) unmasked one take its value - read through the write-back `ii` -/
theorem ends_constant_x (y : List K) (bad : List Bool) (x : List K) (ii : List Nat) (const : Bool)
    (hnd : ii.Nodup) (hlt : ∀ k ∈ ii, k < y.length) (hs : Sorted (ptsX y bad x ii)) :
    (∀ a (ha : a < (ptsX y bad x ii).length), (ptsX y bad x ii)[a].bad = false →
      (∀ k (hk : k < a), ((ptsX y bad x ii)[k]'(by omega)).bad = true) →
      ∀ p (hp : p < a), (maskinterp1X y bad x ii const)[ii[p]'(by simp [ptsX] at ha; omega)]? =
        some (ptsX y bad x ii)[a].y) ∧
    (∀ b (hb : b < (ptsX y bad x ii).length), (ptsX y bad x ii)[b].bad = false →
      (∀ k (_ : b < k) (hk : k < (ptsX y bad x ii).length), (ptsX y bad x ii)[k].bad = true) →
      ∀ p (_ : b < p) (hp : p < ii.length), (maskinterp1X y bad x ii const)[ii[p]]? =
        some (ptsX y bad x ii)[b].y) := by
  have hl : (ptsX y bad x ii).length = ii.length := by simp [ptsX]
  constructor
  · intro a ha ga hpre p hp
    rw [maskinterp_x_writeback y bad x ii const hnd hlt p (by omega)]
    exact core_left_end _ hs const a ha ga hpre p hp
  · intro b hb gb hpost p hbp hp
    rw [maskinterp_x_writeback y bad x ii const hnd hlt p hp]
    exact core_right_end _ hs const b hb gb hpost p hbp (by omega)

/-- **x mode, a single unmasked sample**: its value is returned at every sample -/
theorem single_good_x (y : List K) (bad : List Bool) (x : List K) (ii : List Nat) (const : Bool)
    (hnd : ii.Nodup) (hlt : ∀ k ∈ ii, k < y.length)
    (a : Nat) (ha : a < (ptsX y bad x ii).length) (ga : (ptsX y bad x ii)[a].bad = false)
    (honly : ∀ k (hk : k < (ptsX y bad x ii).length), k ≠ a → (ptsX y bad x ii)[k].bad = true)
    (p : Nat) (hp : p < ii.length) :
    (maskinterp1X y bad x ii const)[ii[p]]? = some (ptsX y bad x ii)[a].y := by
  have hl : (ptsX y bad x ii).length = ii.length := by simp [ptsX]
  rw [maskinterp_x_writeback y bad x ii const hnd hlt p hp]
  exact core_single_good _ const a ha ga honly p (by omega)

/-- **x mode, the values under the mask do not matter**: two inputs that agree on the unmasked samples
(at least one unmasked among the samples listed by `ii`) give the same output -/
theorem independent_of_masked_values_x (y y' : List K) (bad : List Bool) (x : List K) (ii : List Nat)
    (const : Bool) (hl' : y'.length = y.length)
    (hsame : ∀ k ∈ ii, bad.getD k false = false → y.getD k 0 = y'.getD k 0)
    (hgood : ∃ k ∈ ii, bad.getD k false = false) :
    maskinterp1X y bad x ii const = maskinterp1X y' bad x ii const := by
  obtain ⟨g, hg, hgb⟩ := hgood
  have hg1 : ∃ p ∈ ptsX y bad x ii, p.bad = false := by
    unfold ptsX; exact ⟨_, List.mem_map_of_mem hg, hgb⟩
  have hg2 : ∃ p ∈ ptsX y' bad x ii, p.bad = false := by
    unfold ptsX; exact ⟨_, List.mem_map_of_mem hg, hgb⟩
  have hcore : interpCore (ptsX y bad x ii) const = interpCore (ptsX y' bad x ii) const := by
    rw [← core_erase _ const hg1, ← core_erase _ const hg2]
    congr 1
    unfold eraseY ptsX
    rw [List.map_map, List.map_map]
    apply List.map_congr_left
    intro k hk
    simp only [Function.comp, scalar_lit, Nat.cast_zero]
    cases hb : bad.getD k false
    · have := hsame k hk hb
      simp only [List.getD_eq_getElem?_getD] at this
      simp [this]
    · simp
  unfold maskinterp1X
  simp only [hcore, hl']

/-- **the axis loops, x mode** (2-D and 3-D, `xval` given with the shape of `yval`): every output element `p`
is element `t` of the x-mode `djs_maskinterp1` applied to the line through `p` of `yval`, `mask` and `xval` along
numpy axis `ndim-1-a` -/
theorem maskinterp_axis_line_x (argsort : List K → List Nat) (shape : List Nat) (y : List K)
    (bad : List Bool) (x : List K) (a : Nat) (const : Bool) (hnd : shape.length = 2 ∨ shape.length = 3)
    (ha : a < shape.length) (p : Nat) (hp : p < y.length) :
    ∃ out, maskinterp argsort shape shape (some shape) y bad x (some (a : Int)) const = .ok out ∧
      out[p]? = some ((maskinterp1X
        (gather 0 y.toArray (lineOf shape (shape.length - 1 - a) p).2.2.2
          (lineOf shape (shape.length - 1 - a) p).1 (lineOf shape (shape.length - 1 - a) p).2.1)
        (gather false bad.toArray (lineOf shape (shape.length - 1 - a) p).2.2.2
          (lineOf shape (shape.length - 1 - a) p).1 (lineOf shape (shape.length - 1 - a) p).2.1)
        (gather 0 x.toArray (lineOf shape (shape.length - 1 - a) p).2.2.2
          (lineOf shape (shape.length - 1 - a) p).1 (lineOf shape (shape.length - 1 - a) p).2.1)
        (argsort (gather 0 x.toArray (lineOf shape (shape.length - 1 - a) p).2.2.2
          (lineOf shape (shape.length - 1 - a) p).1 (lineOf shape (shape.length - 1 - a) p).2.1))
        const).getD (lineOf shape (shape.length - 1 - a) p).2.2.1 0) := by
  have h1 : (shape.length == 1) = false := by
    rcases hnd with h | h <;> rw [h] <;> rfl
  have h2 : (shape.length != 2 && shape.length != 3) = false := by
    rcases hnd with h | h <;> rw [h] <;> rfl
  have h3 : ¬ ((a : Int) < 0 ∨ (a : Int) > (shape.length : Int) - 1) := by omega
  unfold maskinterp
  simp only [ne_eq, not_true_eq_false, if_false, bind, Except.bind, pure, Except.pure, h1,
    Bool.false_eq_true, h3, h2, Int.toNat_natCast]
  refine ⟨_, rfl, ?_⟩
  rw [List.getElem?_map, List.getElem?_range hp]
  simp only [Option.map_some, scalar_lit, Nat.cast_zero]

/-- non-vacuity of `maskinterp_linear`: `y = [1, _, _, 7]`, samples 1 and 2 masked -/
example : ∃ v, (maskinterp1 ([1, 100, 100, 7] : List ℚ) [false, true, true, false] false)[1]? = some v :=
  ⟨_, maskinterp_linear ([1, 100, 100, 7] : List ℚ) [false, true, true, false] false rfl 0 1 3
    (by omega) (by omega) (by decide) rfl rfl
    (by intro k h1 h2; have : k = 1 ∨ k = 2 := by omega
        rcases this with rfl | rfl <;> rfl)⟩

end interp

section median
variable {K : Type} [Field K] [LinearOrder K] [IsStrictOrderedRing K] [FloorRing K]
attribute [local instance] fieldScalar
attribute [-instance] Scalar.instOfNat Scalar.instOfScientific

/-- symmetric reflection `d c b a | a b c d | d c b a` of `a` about its ends -/
def ext (a : List K) (j : Int) : K :=
  if j < 0 then a.getD (-1 - j).toNat 0
  else if j ≥ a.length then a.getD (2 * (a.length : Int) - 1 - j).toNat 0
  else a.getD j.toNat 0

theorem bigarr_get (a : List K) (h : Nat) (hn : h + 1 ≤ a.length) (m : Nat)
    (hm : m < a.length + 2 * (h + 1)) :
    ((a.take (h + 1)).reverse ++ a ++ (a.drop (a.length - (h + 1))).reverse)[m]? =
      some (ext a ((m : Int) - (h + 1))) := by
  have l1 : (a.take (h + 1)).reverse.length = h + 1 := by simp; omega
  have l2 : (a.drop (a.length - (h + 1))).reverse.length = h + 1 := by simp; omega
  unfold ext
  by_cases c1 : m < h + 1
  · rw [List.append_assoc, List.getElem?_append_left (by omega), List.getElem?_reverse (by simp; omega),
      List.getElem?_take]
    simp only [List.length_take]
    rw [if_pos (by omega), if_pos (by omega), List.getD_eq_getElem?_getD]
    have e1 : min (h + 1) a.length - 1 - m = h - m := by omega
    have e2 : (-1 - ((m : Int) - (↑h + 1))).toNat = h - m := by omega
    rw [e1, e2, List.getElem?_eq_getElem (by omega)]; rfl
  · by_cases c2 : m < h + 1 + a.length
    · rw [List.append_assoc, List.getElem?_append_right (by omega), List.getElem?_append_left (by omega)]
      rw [if_neg (by omega), if_neg (by omega), List.getD_eq_getElem?_getD, l1]
      have e2 : ((m : Int) - (↑h + 1)).toNat = m - (h + 1) := by omega
      rw [e2, List.getElem?_eq_getElem (by omega)]; rfl
    · rw [List.getElem?_append_right (by simp; omega), List.getElem?_reverse (by simp; omega),
        List.getElem?_drop]
      simp only [List.length_append, List.length_reverse, List.length_take, List.length_drop]
      rw [if_neg (by omega), if_pos (by omega), List.getD_eq_getElem?_getD]
      have e1 : a.length - (h + 1) + (a.length - (a.length - (h + 1)) - 1 - (m - (min (h + 1) a.length + a.length)))
          = 2 * a.length + h - m := by omega
      have e2 : (2 * (a.length : Int) - 1 - ((m : Int) - (↑h + 1))).toNat = 2 * a.length + h - m := by omega
      rw [e1, e2, List.getElem?_eq_getElem (by omega)]; rfl
/-- **the reflecting running median** (`djs_median(a, width = 2h+1, boundary = 'reflect')`, 1-D,
`h ≥ 1`, at least `h+1` values): output `i` is the window median `med` of the `2h+1` values
`ext a (i-h) … ext a (i+h)` of the symmetric reflection of `a` -/
theorem median_reflect (med : List K → K) (a : List K) (h : Nat) (hh : 1 ≤ h) (hn : h + 1 ≤ a.length) :
    ∃ out, djsMedianReflect med a (2 * h + 1) = .ok out ∧ out.length = a.length ∧
      ∀ i, i < a.length →
        out[i]? = some (med ((List.range (2 * h + 1)).map
          (fun (k : Nat) => ext a ((i : Int) + (k : Int) - (h : Int))))) := by
  have p1 : (2 * h + 1 + 1) / 2 = h + 1 := by omega
  have p2 : (2 * h + 1 - 1) / 2 = h := by omega
  have p3 : (2 * h + 1) / 2 = h := by omega
  have w1 : ((2 * h + 1 == 1) = false) := by
    cases hb : (2 * h + 1 == 1) with
    | true => simp at hb; omega
    | false => rfl
  unfold djsMedianReflect
  simp only [w1, Bool.false_eq_true, if_false, p1]
  rw [if_neg (by omega), if_neg (by omega)]
  have hbl : ((a.take (h + 1)).reverse ++ a ++ (a.drop (a.length - (h + 1))).reverse).length =
      a.length + 2 * (h + 1) := by simp; omega
  unfold medianFilt
  simp only [hbl, p1, p2, p3]
  have hmin : min (2 * h + 1) (a.length + 2 * (h + 1)) = 2 * h + 1 := by omega
  have hodd : ((2 * h + 1) % 2 == 0) = false := by
    have : (2 * h + 1) % 2 = 1 := by omega
    rw [this]; rfl
  simp only [hmin, hodd, Bool.false_eq_true, if_false, p3]
  refine ⟨_, rfl, ?_, ?_⟩
  · simp; omega
  · intro i hi
    rw [List.getElem?_take, if_pos hi, List.getElem?_drop, List.getElem?_map,
      List.getElem?_range (by omega)]
    simp only [Option.map_some]
    rw [if_neg (by push_cast; omega)]
    congr 2
    apply List.ext_getElem?
    intro k
    rw [List.getElem?_take, List.getElem?_drop, List.getElem?_map]
    by_cases hk : k < 2 * h + 1
    · rw [if_pos hk, List.getElem?_range hk, Option.map_some,
        bigarr_get a h hn (h + 1 + i - h + k) (by omega)]
      congr 2
      push_cast
      omega
    · rw [if_neg hk, List.getElem?_eq_none (by simpa using hk)]; rfl

/-- non-vacuity: the reflection of `[1, 2, 3]` continues `1` to the left and `3` to the right -/
example : ext ([1, 2, 3] : List ℚ) (-1) = 1 ∧ ext ([1, 2, 3] : List ℚ) 0 = 1 ∧
    ext ([1, 2, 3] : List ℚ) 3 = 3 ∧ ext ([1, 2, 3] : List ℚ) 4 = 2 := by
  refine ⟨?_, ?_, ?_, ?_⟩ <;> (unfold ext; norm_num) <;> rfl

end median

end PydlVerif.C17

/-
C17 property theorems: rejection, mask interpolation and sky masking act on
exactly the intended pixels.  Helper lemmas live in PydlVerif/Lemmas/Reject.lean
and PydlVerif/Lemmas/Interp.lean; the theorems listed in harness/props/c17.py follow.
All statements are over an arbitrary linearly ordered field `K` (exact arithmetic).
Second extension round (end of the file; helpers in Lemmas/Median2.lean, Lemmas/Damp.lean): aesthetics with every
method, the 2-D median, the `boundary` clauses, refusals and degenerate inputs.
-/
import PydlVerif.Lemmas.Reject
import PydlVerif.Lemmas.Maxrej
import PydlVerif.Lemmas.Interp
import PydlVerif.Lemmas.Damp
import PydlVerif.Lemmas.Median2
import Mathlib.Data.Rat.Floor
import Mathlib.Tactic.NormNum.OfScientific
namespace PydlVerif.C17
open PydlVerif PydlVerif.Reject PydlVerif.Interp

section reject
variable {K : Type} [Field K] [LinearOrder K] [IsStrictOrderedRing K] [FloorRing K]
attribute [local instance] fieldScalar
attribute [-instance] Scalar.instOfNat Scalar.instOfScientific

theorem zipWith_and_true {β : Type} (f : β → Bool) (l : List Bool) (px : List β) (i : Nat)
    (hi : i < px.length) :
    (List.zipWith (fun a p => a && f p) l px)[i]? = some true ↔
      l[i]? = some true ∧ f px[i] = true := by
  rw [List.getElem?_zipWith, List.getElem?_eq_getElem hi]
  cases l[i]? with
  | none => simp
  | some a => cases a <;> simp

/-- **djs_reject, the output mask** (1-D data, no `maxrej`; `lower, upper ≥ 0`, `maxdev > 0`,
`sigma ≥ 0`).  Pixel `i` stays good exactly when it is not excluded by `inmask`, nor - if
`sticky` - by the previous `outmask`, and no pixel `j` within `grow` of it is newly rejected;
`j` is newly rejected when it is itself not excluded and its residual `d - m` is below
`-lower*sigma`, above `upper*sigma` (with `sigma`, or `(d-m)*sqrt(invvar)` against
`-lower` / `upper` when `invvar` is given) or `|d - m| > maxdev`. -/
theorem reject_mask (sqrt : K → K) (o : Opts K) (px : List (Pix K))
    (hlo : ∀ lo, o.lower = some lo → 0 ≤ lo) (hup : ∀ up, o.upper = some up → 0 ≤ up)
    (hmd : ∀ md, o.maxdev = some md → 0 < md)
    (hs : ∀ p ∈ px, o.useSigma = true → 0 ≤ p.s) :
    (djsRejectPix sqrt o px).1.length = px.length ∧
    ∀ i (hi : i < px.length), ((djsRejectPix sqrt o px).1[i]? = some true ↔
      (Eligible o px[i] ∧
        ¬ ∃ j, ∃ hj : j < px.length, i ≤ j + o.grow ∧ j ≤ i + o.grow ∧ IsBad sqrt o px[j])) := by
  have hlen0 : (growMask o.grow (px.map (fun p => isZero (badness sqrt o p)))).length = px.length := by
    rw [growMask_length, List.length_map]
  constructor
  · unfold djsRejectPix
    simp only
    split <;> split <;> simp [List.length_zipWith, hlen0]
  · intro i hi
    have hg : (growMask o.grow (px.map (fun p => isZero (badness sqrt o p))))[i]? = some true ↔
        ¬ ∃ j, ∃ hj : j < px.length, i ≤ j + o.grow ∧ j ≤ i + o.grow ∧ IsBad sqrt o px[j] := by
      rw [growMask_true _ _ _ (by rw [List.length_map]; exact hi)]
      simp only [List.length_map, List.getElem?_map]
      constructor
      · rintro h ⟨j, hj, h1, h2, hb⟩
        have := h j hj h1 h2
        rw [List.getElem?_eq_getElem hj] at this
        simp only [Option.map_some, Option.some.injEq] at this
        exact (badness_zero_iff sqrt o px[j] hlo hup hmd (hs _ (List.getElem_mem hj))).1 this hb
      · intro h j hj h1 h2
        rw [List.getElem?_eq_getElem hj]
        simp only [Option.map_some, Option.some.injEq]
        exact (badness_zero_iff sqrt o px[j] hlo hup hmd (hs _ (List.getElem_mem hj))).2
          (fun hb => h ⟨j, hj, h1, h2, hb⟩)
    unfold djsRejectPix Eligible
    simp only
    cases h1 : o.hasIn <;> cases h2 : o.sticky <;>
      simp only [↓reduceIte, Bool.false_eq_true, zipWith_and_true _ _ _ _ hi, hg, false_imp_iff,
        true_imp_iff, true_and, and_true, and_assoc] <;> try tauto

/-- the invvar tests are the sigma tests with `sigma = 1/sqrt(invvar)` wherever `sqrt(invvar) > 0` -/
theorem reject_invvar_units (diff lim s : K) (hs : 0 < s) :
    (diff * s < -lim ↔ diff < -(lim * (1 / s))) ∧ (diff * s > lim ↔ diff > lim * (1 / s)) := by
  constructor
  · rw [mul_one_div, ← neg_div, lt_div_iff₀ hs]
  · rw [mul_one_div, gt_iff_lt, gt_iff_lt, div_lt_iff₀ hs]

theorem zipWith_beq_all {β : Type} (f : β → Bool) (l : List Bool) (px : List β)
    (h : l.length = px.length) :
    List.all (List.zipWith (fun a p => a == f p) l px) id = true ↔ l = px.map f := by
  induction l generalizing px with
  | nil => cases px <;> simp_all
  | cons a l ih =>
    cases px with
    | nil => simp at h
    | cons p px =>
      simp only [List.length_cons, Nat.add_right_cancel_iff] at h
      simp [ih px h]

/-- **qdone**: `djs_reject` reports completion exactly when the new mask equals the previous one -/
theorem qdone_iff_unchanged (sqrt : K → K) (o : Opts K) (px : List (Pix K)) :
    (djsRejectPix sqrt o px).2 = true ↔ (djsRejectPix sqrt o px).1 = px.map (·.prev) := by
  have hlen : (djsRejectPix sqrt o px).1.length = px.length := by
    have hlen0 : (growMask o.grow (px.map (fun p => isZero (badness sqrt o p)))).length = px.length := by
      rw [growMask_length, List.length_map]
    unfold djsRejectPix
    simp only
    split <;> split <;> simp [List.length_zipWith, hlen0]
  exact zipWith_beq_all (·.prev) _ px hlen

/-- **the end of `djs_reject` from any working array** (`newmask = badness == 0`, grow in the flattened
array - repair 0812fab -, `& inmask`, `& outmask` when sticky): pixel `i` (flat C-order position, data of any shape) stays good
iff it is not excluded and no pixel `j` within `grow` of it has non-zero badness -/
theorem finishMask_spec (o : Opts K) (px : List (Pix K)) (bad : List K) (hlen : bad.length = px.length) :
    (finishMask o px bad).1.length = px.length ∧
    ∀ i (hi : i < px.length), ((finishMask o px bad).1[i]? = some true ↔
      (Eligible o px[i] ∧
        ¬ ∃ j, ∃ hj : j < px.length, i ≤ j + o.grow ∧ j ≤ i + o.grow ∧ bad[j] ≠ 0)) := by
  have hlen0 : (growMask o.grow (bad.map isZero)).length = px.length := by
    rw [growMask_length, List.length_map, hlen]
  constructor
  · unfold finishMask
    simp only
    split <;> split <;> simp [List.length_zipWith, hlen0]
  · intro i hi
    have hg : (growMask o.grow (bad.map isZero))[i]? = some true ↔
        ¬ ∃ j, ∃ hj : j < px.length, i ≤ j + o.grow ∧ j ≤ i + o.grow ∧ bad[j] ≠ 0 := by
      rw [growMask_true _ _ _ (by rw [List.length_map]; omega)]
      simp only [List.length_map, List.getElem?_map]
      constructor
      · rintro h ⟨j, hj, h1, h2, hb⟩
        have := h j (by omega) h1 h2
        rw [List.getElem?_eq_getElem (by omega : j < bad.length)] at this
        simp only [Option.map_some, Option.some.injEq] at this
        exact hb ((isZero_iff _).1 this)
      · intro h j hj h1 h2
        rw [List.getElem?_eq_getElem hj]
        simp only [Option.map_some, Option.some.injEq]
        cases hz : isZero bad[j] with
        | true => rfl
        | false =>
          exfalso
          refine h ⟨j, by omega, h1, h2, fun h0 => ?_⟩
          rw [(isZero_iff _).2 h0] at hz
          exact Bool.noConfusion hz
    unfold finishMask Eligible
    simp only
    cases h1 : o.hasIn <;> cases h2 : o.sticky <;>
      simp only [↓reduceIte, Bool.false_eq_true, zipWith_and_true _ _ _ _ hi, hg, false_imp_iff,
        true_imp_iff, true_and, and_true, and_assoc] <;> try tauto

/-- the end of the routine applied to the code's working array is `djsRejectPix` -/
theorem finishMask_badness (sqrt : K → K) (o : Opts K) (px : List (Pix K)) :
    finishMask o px (px.map (badness sqrt o)) = djsRejectPix sqrt o px := by
  unfold finishMask djsRejectPix
  simp only [List.map_map, Function.comp_def]

/-- **djs_reject on data of any shape, `grow` included** (the code after repair 0812fab works on the
C-order flattened arrays; `px` is that flattening): the statement of `reject_mask` holds with `i`, `j` flat
positions - the neighbours of a rejected point are its neighbours in the flattened array, as in the IDL
original (`where` returns flat indices) -/
theorem reject_mask_nd (sqrt : K → K) (o : Opts K) (px : List (Pix K))
    (hlo : ∀ lo, o.lower = some lo → 0 ≤ lo) (hup : ∀ up, o.upper = some up → 0 ≤ up)
    (hmd : ∀ md, o.maxdev = some md → 0 < md)
    (hs : ∀ p ∈ px, o.useSigma = true → 0 ≤ p.s) :
    (finishMask o px (px.map (badness sqrt o))).1.length = px.length ∧
    ∀ i (hi : i < px.length), ((finishMask o px (px.map (badness sqrt o))).1[i]? = some true ↔
      (Eligible o px[i] ∧
        ¬ ∃ j, ∃ hj : j < px.length, i ≤ j + o.grow ∧ j ≤ i + o.grow ∧ IsBad sqrt o px[j])) := by
  rw [finishMask_badness]
  exact reject_mask sqrt o px hlo hup hmd hs

/-- `qdone` from any working array: true iff the returned mask equals the previous `outmask` -/
theorem qdone_iff_unchanged_full (o : Opts K) (px : List (Pix K)) (bad : List K) (hlen : bad.length = px.length) :
    (finishMask o px bad).2 = true ↔ (finishMask o px bad).1 = px.map (·.prev) :=
  zipWith_beq_all (fun p : Pix K => p.prev) _ px (finishMask_spec o px bad hlen).1

/-- **without `maxrej` the options `groupdim`, `groupsize`, `groupbadpix` are inert** (this is how `iterfit` and
`combine1fiber` call `djs_reject(..., groupbadpix=True)`; in the code the checks and the block that read them are
under `if maxrej is not None:`): for any two settings `g`, `g'` of the group options and any shape the routine
returns the same, namely the end of the routine applied to the working array of the flattened data -/
theorem groupbadpix_without_maxrej (sqrt : K → K) (o : Opts K) (g g' : GroupOpts) (shape : List Nat)
    (data mdl s : List K) (hm : mdl.length = data.length) (hsl : s.length = data.length) :
    djsRejectFull sqrt o g shape data (some mdl) none none s =
      djsRejectFull sqrt o g' shape data (some mdl) none none s ∧
    ∃ px : List (Pix K), px.length = data.length ∧
      djsRejectFull sqrt o g shape data (some mdl) none none s =
        .ok (finishMask { o with hasIn := false } px (px.map (badness sqrt { o with hasIn := false }))) := by
  refine ⟨rfl, ?_⟩
  have h : ∃ px : List (Pix K),
      djsRejectFull sqrt o g shape data (some mdl) none none s =
        .ok (djsRejectPix sqrt { o with hasIn := false } px) ∧
      px.length = data.length := by
    unfold djsRejectFull djsReject
    simp only [hm, hsl, ne_eq, not_true_eq_false, if_false, bind, Except.bind, pure, Except.pure, Option.isSome_none]
    exact ⟨_, rfl, by simp⟩
  obtain ⟨px, h1, h2⟩ := h
  exact ⟨px, h2, by rw [finishMask_badness]; exact h1⟩

/-- the hypotheses of `reject_mask` are satisfiable by a pixel that is rejected:
`data = 5`, `model = 0`, `sigma = 1`, `upper = 3` -/
example : ∃ (o : Opts ℚ) (p : Pix ℚ), (∀ lo, o.lower = some lo → 0 ≤ lo) ∧
    (∀ up, o.upper = some up → 0 ≤ up) ∧ (∀ md, o.maxdev = some md → 0 < md) ∧
    (o.useSigma = true → 0 ≤ p.s) ∧ IsBad (fun x => x) o p := by
  refine ⟨⟨true, none, some 3, none, false, false, 1⟩, ⟨5, 0, 1, true, true⟩, ?_, ?_, ?_, ?_, ?_⟩
  · intro lo h; cases h
  · intro up h; cases h; norm_num
  · intro md h; cases h
  · intro _; norm_num
  · refine ⟨⟨fun h => Bool.noConfusion h, fun h => Bool.noConfusion h⟩, Or.inr (Or.inl ⟨3, rfl, ?_⟩)⟩
    show (5 : ℚ) - 0 > 3 * 1
    norm_num

end reject

section sky
variable {K : Type} [Field K] [LinearOrder K] [IsStrictOrderedRing K] [FloorRing K]
attribute [local instance] fieldScalar
attribute [-instance] Scalar.instOfNat Scalar.instOfScientific

/-- pixel `j` of the row carries BADSKYCHI (bit 27) or REDMONSTER (bit 28) in `ormask` -/
def FlaggedAt (ormask : Option (List Int)) (j : Nat) : Prop :=
  ∃ om m, ormask = some om ∧ om[j]? = some m ∧ flagged m = true

theorem skyBad_spec (ormask : Option (List Int)) (n g : Nat)
    (hlen : ∀ om, ormask = some om → om.length = n) (i : Nat) (hi : i < n) :
    ((∃ j, i ≤ j + g ∧ j ≤ i + g ∧ FlaggedAt ormask j) → (skyBad ormask n g)[i]? = some 1) ∧
    ((¬ ∃ j, i ≤ j + g ∧ j ≤ i + g ∧ FlaggedAt ormask j) → (skyBad ormask n g)[i]? = some 0) := by
  -- the undilated mask
  obtain ⟨b, hb, hbl, hb01, hbf⟩ : ∃ b : List Int, b = skyBad0 ormask n ∧
      b.length = n ∧ (∀ x ∈ b, x = 0 ∨ x = 1) ∧ (∀ j : Nat, b[j]? = some 1 ↔ FlaggedAt ormask j) := by
    refine ⟨_, rfl, ?_, ?_, ?_⟩
    · cases ormask with
      | none => simp [skyBad0]
      | some om => simp [skyBad0, hlen om rfl]
    · cases ormask with
      | none => intro x hx; left; exact (List.mem_replicate.1 hx).2
      | some om =>
        intro x hx
        simp only [skyBad0, List.mem_map] at hx
        obtain ⟨m, _, rfl⟩ := hx
        split <;> simp
    · intro j
      cases ormask with
      | none =>
        simp only [skyBad0, FlaggedAt, List.getElem?_replicate]
        constructor
        · intro h; split at h <;> simp at h
        · rintro ⟨om, m, h, _⟩; simp at h
      | some om =>
        simp only [skyBad0, FlaggedAt, List.getElem?_map]
        constructor
        · intro h
          cases hm : om[j]? with
          | none => rw [hm] at h; simp at h
          | some m =>
            rw [hm] at h
            refine ⟨om, m, rfl, hm, ?_⟩
            cases hf : flagged m
            · simp [hf] at h
            · rfl
        · rintro ⟨om', m, h1, h2, h3⟩
          cases h1
          rw [h2]; simp [h3]
  have hskb : skyBad ormask n g = if g > 0 then
      (smoothInt (b.map (· * ((2 * g + 1 : Nat) : Int))) (2 * g + 1) true).map
        (fun v => if v > 0 then 1 else 0) else b := by
    rw [hb]; rfl
  rw [hskb]
  have hib : i < b.length := by omega
  by_cases hg : g > 0
  · rw [if_pos hg]
    obtain ⟨v, hv, hiff⟩ := smoothInt_dilate b hb01 g hg i hib
    rw [List.getElem?_map, hv]
    simp only [Option.map_some, hbf] at hiff ⊢
    constructor
    · intro h; rw [if_pos (hiff.2 h)]
    · intro h; rw [if_neg (fun hp => h (hiff.1 hp))]
  · rw [if_neg hg]
    have hg0 : g = 0 := by omega
    subst hg0
    constructor
    · rintro ⟨j, h1, h2, hf⟩
      have : j = i := by omega
      subst this
      exact (hbf j).2 hf
    · intro h
      have hne : b[i]? ≠ some 1 := fun hc => h ⟨i, by omega, by omega, (hbf i).1 hc⟩
      rw [List.getElem?_eq_getElem hib] at hne ⊢
      rcases hb01 b[i] (List.getElem_mem hib) with h0 | h1
      · rw [h0]
      · rw [h1] at hne; exact absurd rfl hne

/-- **skymask**: within one row the inverse variance is set to zero exactly at the pixels that
lie within `ngrow` of a pixel flagged BADSKYCHI or REDMONSTER; every other pixel is unchanged.
(`ormask = none`: nothing is flagged.) -/
theorem skymask_dilate (invvar : List K) (ormask : Option (List Int)) (g : Nat)
    (hlen : ∀ om, ormask = some om → om.length = invvar.length) (i : Nat) (hi : i < invvar.length) :
    ((∃ j, i ≤ j + g ∧ j ≤ i + g ∧ FlaggedAt ormask j) →
        (skymaskRow invvar ormask g)[i]? = some 0) ∧
    ((¬ ∃ j, i ≤ j + g ∧ j ≤ i + g ∧ FlaggedAt ormask j) →
        (skymaskRow invvar ormask g)[i]? = some invvar[i]) := by
  obtain ⟨h1, h0⟩ := skyBad_spec ormask invvar.length g hlen i hi
  unfold skymaskRow
  rw [List.getElem?_zipWith, List.getElem?_eq_getElem hi]
  constructor
  · intro h; rw [h1 h]; simp
  · intro h; rw [h0 h]; simp

/-- non-vacuity: bit 27 is recognised, also in a negative (sign-extended) value; other bits are not -/
example : flagged (2 ^ 27) = true ∧ flagged (-1) = true ∧ flagged (2 ^ 26 + 2 ^ 29) = false := by decide

end sky
section interp
variable {K : Type} [Field K] [LinearOrder K] [IsStrictOrderedRing K] [FloorRing K]
attribute [local instance] fieldScalar
attribute [-instance] Scalar.instOfNat Scalar.instOfScientific

theorem ptsIdx_length (y : List K) (bad : List Bool) : (ptsIdx y bad).length = y.length := by
  simp [ptsIdx]

theorem ptsIdx_get (y : List K) (bad : List Bool) (hlen : bad.length = y.length) (i : Nat)
    (hi : i < y.length) :
    (ptsIdx y bad)[i]'(by rw [ptsIdx_length]; exact hi) = ⟨(i : K), y[i], bad[i]⟩ := by
  simp only [ptsIdx, List.getElem_map, List.getElem_range, scalar_ofNat, scalar_lit, Nat.cast_zero,
    List.getD_eq_getElem?_getD, List.getElem?_eq_getElem hi,
    List.getElem?_eq_getElem (show i < bad.length by omega), Option.getD_some]

theorem ptsIdx_sorted (y : List K) (bad : List Bool) (hlen : bad.length = y.length) :
    Sorted (ptsIdx y bad) := by
  intro k l hkl hl
  rw [ptsIdx_length] at hl
  rw [ptsIdx_get y bad hlen k (by omega), ptsIdx_get y bad hlen l hl]
  exact Nat.cast_lt.2 hkl

/-- **only masked samples change** (`djs_maskinterp1`, index mode, any `const`) -/
theorem maskinterp_only_masked (y : List K) (bad : List Bool) (const : Bool)
    (hlen : bad.length = y.length) (i : Nat) (hi : i < y.length) (g : bad[i] = false) :
    (maskinterp1 y bad const)[i]? = some y[i] := by
  have := core_only_masked (ptsIdx y bad) const i (by rw [ptsIdx_length]; exact hi)
    (by rw [ptsIdx_get y bad hlen i hi]; exact g)
  rw [ptsIdx_get y bad hlen i hi] at this
  exact this

/-- **linear interpolation between the nearest unmasked neighbours** (index mode):
`a < i < b`, `a` and `b` unmasked, everything between them masked -/
theorem maskinterp_linear (y : List K) (bad : List Bool) (const : Bool) (hlen : bad.length = y.length)
    (a i b : Nat) (hai : a < i) (hib : i < b) (hb : b < y.length) (ga : bad[a] = false)
    (gb : bad[b] = false) (hmid : ∀ k (_ : a < k) (_ : k < b), bad[k] = true) :
    (maskinterp1 y bad const)[i]? =
      some ((y[b] - y[a]) / ((b : K) - (a : K)) * ((i : K) - (a : K)) + y[a]) := by
  have hb' : b < (ptsIdx y bad).length := by rw [ptsIdx_length]; exact hb
  have := core_linear (ptsIdx y bad) (ptsIdx_sorted y bad hlen) const a i b hai hib hb'
    (by rw [ptsIdx_get y bad hlen a (by omega)]; exact ga)
    (by rw [ptsIdx_get y bad hlen b hb]; exact gb)
    (by intro k h1 h2; rw [ptsIdx_get y bad hlen k (by omega)]; exact hmid k h1 h2)
  rw [ptsIdx_get y bad hlen a (by omega), ptsIdx_get y bad hlen b hb,
    ptsIdx_get y bad hlen i (by omega)] at this
  exact this

/-- **end values are held constant**: masked samples before the first (after the last) unmasked one
take its value, with or without `const` -/
theorem ends_constant (y : List K) (bad : List Bool) (const : Bool) (hlen : bad.length = y.length) :
    (∀ a (ha : a < y.length), bad[a] = false → (∀ k (_ : k < a), bad[k] = true) →
      ∀ i, i < a → (maskinterp1 y bad const)[i]? = some y[a]) ∧
    (∀ b (hb : b < y.length), bad[b] = false → (∀ k (_ : b < k) (_ : k < y.length), bad[k] = true) →
      ∀ i, b < i → i < y.length → (maskinterp1 y bad const)[i]? = some y[b]) := by
  constructor
  · intro a ha ga hpre i hi
    have := core_left_end (ptsIdx y bad) (ptsIdx_sorted y bad hlen) const a
      (by rw [ptsIdx_length]; exact ha) (by rw [ptsIdx_get y bad hlen a ha]; exact ga)
      (by intro k hk; rw [ptsIdx_get y bad hlen k (by omega)]; exact hpre k hk) i hi
    rw [ptsIdx_get y bad hlen a ha] at this
    exact this
  · intro b hb gb hpost i hbi hi
    have := core_right_end (ptsIdx y bad) (ptsIdx_sorted y bad hlen) const b
      (by rw [ptsIdx_length]; exact hb) (by rw [ptsIdx_get y bad hlen b hb]; exact gb)
      (by intro k h1 hk; rw [ptsIdx_length] at hk; rw [ptsIdx_get y bad hlen k hk]; exact hpost k h1 hk)
      i hbi (by rw [ptsIdx_length]; exact hi)
    rw [ptsIdx_get y bad hlen b hb] at this
    exact this

/-- **a single unmasked sample**: its value is returned everywhere -/
theorem single_good (y : List K) (bad : List Bool) (const : Bool) (hlen : bad.length = y.length)
    (a : Nat) (ha : a < y.length) (ga : bad[a] = false)
    (honly : ∀ k (_ : k < y.length), k ≠ a → bad[k] = true) (i : Nat) (hi : i < y.length) :
    (maskinterp1 y bad const)[i]? = some y[a] := by
  have := core_single_good (ptsIdx y bad) const a (by rw [ptsIdx_length]; exact ha)
    (by rw [ptsIdx_get y bad hlen a ha]; exact ga)
    (by intro k hk hne; rw [ptsIdx_length] at hk; rw [ptsIdx_get y bad hlen k hk]; exact honly k hk hne)
    i (by rw [ptsIdx_length]; exact hi)
  rw [ptsIdx_get y bad hlen a ha] at this
  exact this

theorem interp_isZero_iff (a : K) : (Interp.isZeroI a = true) ↔ a = 0 := by
  simp [Interp.isZeroI, Scalar.beq]

/-- **aesthetics changes flux only where the inverse variance is zero** (`invvar ≥ 0`;
methods traditional, noconst, mean, nothing; `gm` is numpy's mean of the good flux values) -/
theorem aesthetics_only_bad (flux invvar : List K) (m : Method) (gm : K)
    (hlen : invvar.length = flux.length) (hnn : ∀ v ∈ invvar, 0 ≤ v)
    (hm : m = .traditional ∨ m = .noconst ∨ m = .mean ∨ m = .nothing) :
    ∃ out, aesthetics flux invvar m gm = .ok out ∧
      ∀ i (hi : i < flux.length), invvar[i] ≠ 0 → out[i]? = some flux[i] := by
  have hbl : (invvar.map Interp.isZeroI).length = flux.length := by simp [hlen]
  have hbi : ∀ i (hi : i < flux.length), invvar[i] ≠ 0 →
      (invvar.map Interp.isZeroI)[i]'(by omega) = false := by
    intro i hi hne
    rw [List.getElem_map]
    cases h : Interp.isZeroI invvar[i] with
    | true => exact absurd ((interp_isZero_iff _).1 h) hne
    | false => rfl
  unfold aesthetics
  simp only
  split
  · rcases hm with rfl | rfl | rfl | rfl
    · exact ⟨_, rfl, fun i hi hne => maskinterp_only_masked flux _ true hbl i hi (hbi i hi hne)⟩
    · exact ⟨_, rfl, fun i hi hne => maskinterp_only_masked flux _ false hbl i hi (hbi i hi hne)⟩
    · refine ⟨_, rfl, fun i hi hne => ?_⟩
      have hi' : i < invvar.length := by omega
      have hz : (flux.zip invvar)[i]? = some (flux[i], invvar[i]) :=
        List.getElem?_zip_eq_some.2 ⟨List.getElem?_eq_getElem hi, List.getElem?_eq_getElem hi'⟩
      rw [List.getElem?_map, hz]
      have hpos : invvar[i] > 0 := lt_of_le_of_ne (hnn _ (List.getElem_mem hi')) (Ne.symm hne)
      simp [hpos]
    · exact ⟨_, rfl, fun i hi _ => List.getElem?_eq_getElem hi⟩
  · exact ⟨_, rfl, fun i hi _ => List.getElem?_eq_getElem hi⟩

/-- **the values under the mask do not matter** (as long as one sample is unmasked; with none the
input is returned unchanged): two inputs that agree on the unmasked samples give the same output -/
theorem independent_of_masked_values (y y' : List K) (bad : List Bool) (const : Bool)
    (hl : bad.length = y.length) (hl' : y'.length = y.length)
    (hsame : ∀ i (hi : i < y.length), bad[i] = false → y[i] = y'[i])
    (hgood : ∃ i, ∃ hi : i < y.length, bad[i] = false) :
    maskinterp1 y bad const = maskinterp1 y' bad const := by
  obtain ⟨g, hg, hgb⟩ := hgood
  have hg1 : ∃ p ∈ ptsIdx y bad, p.bad = false :=
    ⟨_, List.getElem_mem (by rw [ptsIdx_length]; exact hg), by rw [ptsIdx_get y bad hl g hg]; exact hgb⟩
  have hg2 : ∃ p ∈ ptsIdx y' bad, p.bad = false :=
    ⟨(ptsIdx y' bad)[g]'(by rw [ptsIdx_length]; omega), List.getElem_mem _,
      by rw [ptsIdx_get y' bad (by omega) g (by omega)]; exact hgb⟩
  unfold maskinterp1
  rw [← core_erase _ const hg1, ← core_erase _ const hg2]
  congr 1
  apply List.ext_getElem
  · simp [eraseY, ptsIdx_length, hl']
  · intro i h1 h2
    simp only [eraseY, List.length_map, ptsIdx_length] at h1 h2
    simp only [eraseY, List.getElem_map]
    rw [ptsIdx_get y bad hl i h1, ptsIdx_get y' bad (by omega) i h2]
    cases hb : bad[i]
    · simp [hsame i h1 hb]
    · simp

theorem interpCore_length (t : List (Pt K)) (const : Bool) : (interpCore t const).length = t.length := by
  unfold interpCore
  split
  · simp
  · split
    · simp
    · split
      · simp
      · cases const <;> simp [constEnds]

/-- **x mode**: `djs_maskinterp1(yval, mask, xval)` works on the samples in the order
`ii = xval.argsort()` and writes the results back through `ii`: the output at `ii[p]` is the
`p`-th value of the interpolation over the sorted samples.  (`ii` without repetition, entries `< n`.) -/
theorem maskinterp_x_writeback (y : List K) (bad : List Bool) (x : List K) (ii : List Nat) (const : Bool)
    (hnd : ii.Nodup) (hlt : ∀ k ∈ ii, k < y.length) (p : Nat) (hp : p < ii.length) :
    (maskinterp1X y bad x ii const)[ii[p]]? = (interpCore (ptsX y bad x ii) const)[p]? := by
  have hk := hlt _ (List.getElem_mem hp)
  have hlen : (interpCore (ptsX y bad x ii) const).length = ii.length := by
    rw [interpCore_length]; simp [ptsX]
  unfold maskinterp1X
  simp only
  rw [List.getElem?_map, List.getElem?_range hk, Option.map_some, hnd.idxOf_getElem p hp,
    List.getD_eq_getElem?_getD, List.getElem?_eq_getElem (by omega)]
  rfl

/-- **x mode, linear interpolation in x between the nearest unmasked neighbours**: with the
samples `t` in increasing-x order (contract of argsort: `Sorted t`), a masked sample at sorted
position `p` between the unmasked positions `a < p < b` (all between masked) becomes the linear
interpolation in `x`; the unmasked samples are unchanged -/
theorem maskinterp_x_linear (y : List K) (bad : List Bool) (x : List K) (ii : List Nat) (const : Bool)
    (hnd : ii.Nodup) (hlt : ∀ k ∈ ii, k < y.length) (hs : Sorted (ptsX y bad x ii))
    (a p b : Nat) (hap : a < p) (hpb : p < b) (hb : b < (ptsX y bad x ii).length)
    (ga : ((ptsX y bad x ii)[a]'(by omega)).bad = false) (gb : (ptsX y bad x ii)[b].bad = false)
    (hmid : ∀ k (_ : a < k) (h2 : k < b), ((ptsX y bad x ii)[k]'(by omega)).bad = true) :
    (maskinterp1X y bad x ii const)[ii[p]'(by simp [ptsX] at hb; omega)]? =
      some (((ptsX y bad x ii)[b].y - ((ptsX y bad x ii)[a]'(by omega)).y) /
        ((ptsX y bad x ii)[b].x - ((ptsX y bad x ii)[a]'(by omega)).x) *
        (((ptsX y bad x ii)[p]'(by omega)).x - ((ptsX y bad x ii)[a]'(by omega)).x) +
        ((ptsX y bad x ii)[a]'(by omega)).y) ∧
    (∀ q (hq : q < ii.length), ((ptsX y bad x ii)[q]'(by simp [ptsX]; exact hq)).bad = false →
      (maskinterp1X y bad x ii const)[ii[q]]? = some ((ptsX y bad x ii)[q]'(by simp [ptsX]; exact hq)).y) := by
  have hl : (ptsX y bad x ii).length = ii.length := by simp [ptsX]
  constructor
  · rw [maskinterp_x_writeback y bad x ii const hnd hlt p (by omega)]
    exact core_linear _ hs const a p b hap hpb hb ga gb hmid
  · intro q hq hg
    rw [maskinterp_x_writeback y bad x ii const hnd hlt q hq]
    exact core_only_masked _ const q (by omega) hg

/-- **the axis loops** (index mode, 2-D and 3-D, C-order flattened arrays): with IDL-style
`axis = a` every output element `p` is element `t` of `djs_maskinterp1` applied to the line through
`p` along numpy axis `ndim-1-a` (`lineOf` gives stride, length, position `t` and base of that line) -/
theorem maskinterp_axis_line (argsort : List K → List Nat) (shape : List Nat) (y : List K)
    (bad : List Bool) (a : Nat) (const : Bool) (hnd : shape.length = 2 ∨ shape.length = 3)
    (ha : a < shape.length) (p : Nat) (hp : p < y.length) :
    ∃ out, maskinterp argsort shape shape none y bad [] (some (a : Int)) const = .ok out ∧
      out[p]? = some ((maskinterp1
        (gather 0 y.toArray (lineOf shape (shape.length - 1 - a) p).2.2.2
          (lineOf shape (shape.length - 1 - a) p).1 (lineOf shape (shape.length - 1 - a) p).2.1)
        (gather false bad.toArray (lineOf shape (shape.length - 1 - a) p).2.2.2
          (lineOf shape (shape.length - 1 - a) p).1 (lineOf shape (shape.length - 1 - a) p).2.1)
        const).getD (lineOf shape (shape.length - 1 - a) p).2.2.1 0) := by
  have h1 : (shape.length == 1) = false := by
    rcases hnd with h | h <;> rw [h] <;> rfl
  have h2 : (shape.length != 2 && shape.length != 3) = false := by
    rcases hnd with h | h <;> rw [h] <;> rfl
  have h3 : ¬ ((a : Int) < 0 ∨ (a : Int) > (shape.length : Int) - 1) := by omega
  unfold maskinterp
  simp only [ne_eq, not_true_eq_false, if_false, bind, Except.bind, pure, Except.pure, h1,
    Bool.false_eq_true, h3, h2, Int.toNat_natCast]
  refine ⟨_, rfl, ?_⟩
  rw [List.getElem?_map, List.getElem?_range hp]
  simp only [Option.map_some, scalar_lit, Nat.cast_zero]

/-- **x mode, end values are held constant**: with the samples `t` in increasing-x order, the masked samples
before the first (after the last) unmasked one take its value - read through the write-back `ii` -/
theorem ends_constant_x (y : List K) (bad : List Bool) (x : List K) (ii : List Nat) (const : Bool)
    (hnd : ii.Nodup) (hlt : ∀ k ∈ ii, k < y.length) (hs : Sorted (ptsX y bad x ii)) :
    (∀ a (ha : a < (ptsX y bad x ii).length), (ptsX y bad x ii)[a].bad = false →
      (∀ k (hk : k < a), ((ptsX y bad x ii)[k]'(by omega)).bad = true) →
      ∀ p (hp : p < a), (maskinterp1X y bad x ii const)[ii[p]'(by simp [ptsX] at ha; omega)]? =
        some (ptsX y bad x ii)[a].y) ∧
    (∀ b (hb : b < (ptsX y bad x ii).length), (ptsX y bad x ii)[b].bad = false →
      (∀ k (_ : b < k) (hk : k < (ptsX y bad x ii).length), (ptsX y bad x ii)[k].bad = true) →
      ∀ p (_ : b < p) (hp : p < ii.length), (maskinterp1X y bad x ii const)[ii[p]]? =
        some (ptsX y bad x ii)[b].y) := by
  have hl : (ptsX y bad x ii).length = ii.length := by simp [ptsX]
  constructor
  · intro a ha ga hpre p hp
    rw [maskinterp_x_writeback y bad x ii const hnd hlt p (by omega)]
    exact core_left_end _ hs const a ha ga hpre p hp
  · intro b hb gb hpost p hbp hp
    rw [maskinterp_x_writeback y bad x ii const hnd hlt p hp]
    exact core_right_end _ hs const b hb gb hpost p hbp (by omega)

/-- **x mode, a single unmasked sample**: its value is returned at every sample -/
theorem single_good_x (y : List K) (bad : List Bool) (x : List K) (ii : List Nat) (const : Bool)
    (hnd : ii.Nodup) (hlt : ∀ k ∈ ii, k < y.length)
    (a : Nat) (ha : a < (ptsX y bad x ii).length) (ga : (ptsX y bad x ii)[a].bad = false)
    (honly : ∀ k (hk : k < (ptsX y bad x ii).length), k ≠ a → (ptsX y bad x ii)[k].bad = true)
    (p : Nat) (hp : p < ii.length) :
    (maskinterp1X y bad x ii const)[ii[p]]? = some (ptsX y bad x ii)[a].y := by
  have hl : (ptsX y bad x ii).length = ii.length := by simp [ptsX]
  rw [maskinterp_x_writeback y bad x ii const hnd hlt p hp]
  exact core_single_good _ const a ha ga honly p (by omega)

/-- **x mode, the values under the mask do not matter**: two inputs that agree on the unmasked samples
(at least one unmasked among the samples listed by `ii`) give the same output -/
theorem independent_of_masked_values_x (y y' : List K) (bad : List Bool) (x : List K) (ii : List Nat)
    (const : Bool) (hl' : y'.length = y.length)
    (hsame : ∀ k ∈ ii, bad.getD k false = false → y.getD k 0 = y'.getD k 0)
    (hgood : ∃ k ∈ ii, bad.getD k false = false) :
    maskinterp1X y bad x ii const = maskinterp1X y' bad x ii const := by
  obtain ⟨g, hg, hgb⟩ := hgood
  have hg1 : ∃ p ∈ ptsX y bad x ii, p.bad = false := by
    unfold ptsX; exact ⟨_, List.mem_map_of_mem hg, hgb⟩
  have hg2 : ∃ p ∈ ptsX y' bad x ii, p.bad = false := by
    unfold ptsX; exact ⟨_, List.mem_map_of_mem hg, hgb⟩
  have hcore : interpCore (ptsX y bad x ii) const = interpCore (ptsX y' bad x ii) const := by
    rw [← core_erase _ const hg1, ← core_erase _ const hg2]
    congr 1
    unfold eraseY ptsX
    rw [List.map_map, List.map_map]
    apply List.map_congr_left
    intro k hk
    simp only [Function.comp, scalar_lit, Nat.cast_zero]
    cases hb : bad.getD k false
    · have := hsame k hk hb
      simp only [List.getD_eq_getElem?_getD] at this
      simp [this]
    · simp
  unfold maskinterp1X
  simp only [hcore, hl']

/-- **the axis loops, x mode** (2-D and 3-D, `xval` given with the shape of `yval`): every output element `p`
is element `t` of the x-mode `djs_maskinterp1` applied to the line through `p` of `yval`, `mask` and `xval` along
numpy axis `ndim-1-a` -/
theorem maskinterp_axis_line_x (argsort : List K → List Nat) (shape : List Nat) (y : List K)
    (bad : List Bool) (x : List K) (a : Nat) (const : Bool) (hnd : shape.length = 2 ∨ shape.length = 3)
    (ha : a < shape.length) (p : Nat) (hp : p < y.length) :
    ∃ out, maskinterp argsort shape shape (some shape) y bad x (some (a : Int)) const = .ok out ∧
      out[p]? = some ((maskinterp1X
        (gather 0 y.toArray (lineOf shape (shape.length - 1 - a) p).2.2.2
          (lineOf shape (shape.length - 1 - a) p).1 (lineOf shape (shape.length - 1 - a) p).2.1)
        (gather false bad.toArray (lineOf shape (shape.length - 1 - a) p).2.2.2
          (lineOf shape (shape.length - 1 - a) p).1 (lineOf shape (shape.length - 1 - a) p).2.1)
        (gather 0 x.toArray (lineOf shape (shape.length - 1 - a) p).2.2.2
          (lineOf shape (shape.length - 1 - a) p).1 (lineOf shape (shape.length - 1 - a) p).2.1)
        (argsort (gather 0 x.toArray (lineOf shape (shape.length - 1 - a) p).2.2.2
          (lineOf shape (shape.length - 1 - a) p).1 (lineOf shape (shape.length - 1 - a) p).2.1))
        const).getD (lineOf shape (shape.length - 1 - a) p).2.2.1 0) := by
  have h1 : (shape.length == 1) = false := by
    rcases hnd with h | h <;> rw [h] <;> rfl
  have h2 : (shape.length != 2 && shape.length != 3) = false := by
    rcases hnd with h | h <;> rw [h] <;> rfl
  have h3 : ¬ ((a : Int) < 0 ∨ (a : Int) > (shape.length : Int) - 1) := by omega
  unfold maskinterp
  simp only [ne_eq, not_true_eq_false, if_false, bind, Except.bind, pure, Except.pure, h1,
    Bool.false_eq_true, h3, h2, Int.toNat_natCast]
  refine ⟨_, rfl, ?_⟩
  rw [List.getElem?_map, List.getElem?_range hp]
  simp only [Option.map_some, scalar_lit, Nat.cast_zero]

/-- non-vacuity of `maskinterp_linear`: `y = [1, _, _, 7]`, samples 1 and 2 masked -/
example : ∃ v, (maskinterp1 ([1, 100, 100, 7] : List ℚ) [false, true, true, false] false)[1]? = some v :=
  ⟨_, maskinterp_linear ([1, 100, 100, 7] : List ℚ) [false, true, true, false] false rfl 0 1 3
    (by omega) (by omega) (by decide) rfl rfl
    (by intro k h1 h2; have : k = 1 ∨ k = 2 := by omega
        rcases this with rfl | rfl <;> rfl)⟩

end interp

section median
variable {K : Type} [Field K] [LinearOrder K] [IsStrictOrderedRing K] [FloorRing K]
attribute [local instance] fieldScalar
attribute [-instance] Scalar.instOfNat Scalar.instOfScientific

/-- symmetric reflection `d c b a | a b c d | d c b a` of `a` about its ends -/
def ext (a : List K) (j : Int) : K :=
  if j < 0 then a.getD (-1 - j).toNat 0
  else if j ≥ a.length then a.getD (2 * (a.length : Int) - 1 - j).toNat 0
  else a.getD j.toNat 0

theorem bigarr_get (a : List K) (h : Nat) (hn : h + 1 ≤ a.length) (m : Nat)
    (hm : m < a.length + 2 * (h + 1)) :
    ((a.take (h + 1)).reverse ++ a ++ (a.drop (a.length - (h + 1))).reverse)[m]? =
      some (ext a ((m : Int) - (h + 1))) := by
  have l1 : (a.take (h + 1)).reverse.length = h + 1 := by simp; omega
  have l2 : (a.drop (a.length - (h + 1))).reverse.length = h + 1 := by simp; omega
  unfold ext
  by_cases c1 : m < h + 1
  · rw [List.append_assoc, List.getElem?_append_left (by omega), List.getElem?_reverse (by simp; omega),
      List.getElem?_take]
    simp only [List.length_take]
    rw [if_pos (by omega), if_pos (by omega), List.getD_eq_getElem?_getD]
    have e1 : min (h + 1) a.length - 1 - m = h - m := by omega
    have e2 : (-1 - ((m : Int) - (↑h + 1))).toNat = h - m := by omega
    rw [e1, e2, List.getElem?_eq_getElem (by omega)]; rfl
  · by_cases c2 : m < h + 1 + a.length
    · rw [List.append_assoc, List.getElem?_append_right (by omega), List.getElem?_append_left (by omega)]
      rw [if_neg (by omega), if_neg (by omega), List.getD_eq_getElem?_getD, l1]
      have e2 : ((m : Int) - (↑h + 1)).toNat = m - (h + 1) := by omega
      rw [e2, List.getElem?_eq_getElem (by omega)]; rfl
    · rw [List.getElem?_append_right (by simp; omega), List.getElem?_reverse (by simp; omega),
        List.getElem?_drop]
      simp only [List.length_append, List.length_reverse, List.length_take, List.length_drop]
      rw [if_neg (by omega), if_pos (by omega), List.getD_eq_getElem?_getD]
      have e1 : a.length - (h + 1) + (a.length - (a.length - (h + 1)) - 1 - (m - (min (h + 1) a.length + a.length)))
          = 2 * a.length + h - m := by omega
      have e2 : (2 * (a.length : Int) - 1 - ((m : Int) - (↑h + 1))).toNat = 2 * a.length + h - m := by omega
      rw [e1, e2, List.getElem?_eq_getElem (by omega)]; rfl
/-- **the reflecting running median** (`djs_median(a, width = 2h+1, boundary = 'reflect')`, 1-D,
`h ≥ 1`, at least `h+1` values): output `i` is the window median `med` of the `2h+1` values
`ext a (i-h) … ext a (i+h)` of the symmetric reflection of `a` -/
theorem median_reflect (med : List K → K) (a : List K) (h : Nat) (hh : 1 ≤ h) (hn : h + 1 ≤ a.length) :
    ∃ out, djsMedianReflect med a (2 * h + 1) = .ok out ∧ out.length = a.length ∧
      ∀ i, i < a.length →
        out[i]? = some (med ((List.range (2 * h + 1)).map
          (fun (k : Nat) => ext a ((i : Int) + (k : Int) - (h : Int))))) := by
  have p1 : (2 * h + 1 + 1) / 2 = h + 1 := by omega
  have p2 : (2 * h + 1 - 1) / 2 = h := by omega
  have p3 : (2 * h + 1) / 2 = h := by omega
  have w1 : ((2 * h + 1 == 1) = false) := by
    cases hb : (2 * h + 1 == 1) with
    | true => simp at hb; omega
    | false => rfl
  unfold djsMedianReflect
  simp only [w1, Bool.false_eq_true, if_false, p1]
  rw [if_neg (by omega), if_neg (by omega)]
  have hbl : ((a.take (h + 1)).reverse ++ a ++ (a.drop (a.length - (h + 1))).reverse).length =
      a.length + 2 * (h + 1) := by simp; omega
  unfold medianFilt
  simp only [hbl, p1, p2, p3]
  have hmin : min (2 * h + 1) (a.length + 2 * (h + 1)) = 2 * h + 1 := by omega
  have hodd : ((2 * h + 1) % 2 == 0) = false := by
    have : (2 * h + 1) % 2 = 1 := by omega
    rw [this]; rfl
  simp only [hmin, hodd, Bool.false_eq_true, if_false, p3]
  refine ⟨_, rfl, ?_, ?_⟩
  · simp; omega
  · intro i hi
    rw [List.getElem?_take, if_pos hi, List.getElem?_drop, List.getElem?_map,
      List.getElem?_range (by omega)]
    simp only [Option.map_some]
    rw [if_neg (by push_cast; omega)]
    congr 2
    apply List.ext_getElem?
    intro k
    rw [List.getElem?_take, List.getElem?_drop, List.getElem?_map]
    by_cases hk : k < 2 * h + 1
    · rw [if_pos hk, List.getElem?_range hk, Option.map_some,
        bigarr_get a h hn (h + 1 + i - h + k) (by omega)]
      congr 2
      push_cast
      omega
    · rw [if_neg hk, List.getElem?_eq_none (by simpa using hk)]; rfl

/-- non-vacuity: the reflection of `[1, 2, 3]` continues `1` to the left and `3` to the right -/
example : ext ([1, 2, 3] : List ℚ) (-1) = 1 ∧ ext ([1, 2, 3] : List ℚ) 0 = 1 ∧
    ext ([1, 2, 3] : List ℚ) 3 = 3 ∧ ext ([1, 2, 3] : List ℚ) 4 = 2 := by
  refine ⟨?_, ?_, ?_, ?_⟩ <;> (unfold ext; norm_num) <;> rfl

end median

/-! # second extension round: aesthetics (every method), the remaining refusal / degenerate clauses,
the 2-D median and the other `boundary` clauses -/

section aesthetics
variable {K : Type} [Field K] [LinearOrder K] [IsStrictOrderedRing K] [FloorRing K]
attribute [local instance] fieldScalar
attribute [-instance] Scalar.instOfNat Scalar.instOfScientific

theorem maskinterp1_length (y : List K) (bad : List Bool) (const : Bool) :
    (maskinterp1 y bad const).length = y.length := by
  unfold maskinterp1
  rw [interpCore_length, ptsIdx_length]

theorem badpts_any (invvar : List K) :
    (invvar.map Interp.isZeroI).any id = true ↔ ∃ v ∈ invvar, v = 0 := by
  simp only [List.any_map, List.any_eq_true, Function.comp, id, interp_isZero_iff]

theorem badpts_any_false (invvar : List K) (h : ∀ v ∈ invvar, v ≠ 0) :
    (invvar.map Interp.isZeroI).any id = false := by
  cases hb : (invvar.map Interp.isZeroI).any id with
  | false => rfl
  | true =>
    obtain ⟨v, hv, h0⟩ := (badpts_any invvar).1 hb
    exact absurd h0 (h v hv)

/-- **no pixel with `invvar == 0`: every method - 'damp' and an unknown name included - returns the flux itself** -/
theorem aesthetics_clean (erf : K → K) (flux invvar : List K) (m : Method) (gm : K)
    (h : ∀ v ∈ invvar, v ≠ 0) : aestheticsFull erf flux invvar m gm = .ok flux := by
  have hb := badpts_any_false invvar h
  cases m <;> simp [aestheticsFull, aesthetics, aestheticsDamp, hb]

/-- `aesthetics_only_bad` read through the full dispatch: for traditional, noconst, mean, nothing (`invvar ≥ 0`) the flux
changes only where the inverse variance is zero -/
theorem aesthetics_full_only_bad (erf : K → K) (flux invvar : List K) (m : Method) (gm : K)
    (hlen : invvar.length = flux.length) (hnn : ∀ v ∈ invvar, 0 ≤ v)
    (hm : m = .traditional ∨ m = .noconst ∨ m = .mean ∨ m = .nothing) :
    ∃ out, aestheticsFull erf flux invvar m gm = .ok out ∧
      ∀ i (hi : i < flux.length), invvar[i] ≠ 0 → out[i]? = some flux[i] := by
  have e : aestheticsFull erf flux invvar m gm = aesthetics flux invvar m gm := by
    rcases hm with rfl | rfl | rfl | rfl <;> rfl
  rw [e]
  exact aesthetics_only_bad flux invvar m gm hlen hnn hm

/-- **an unknown method raises `Pydlspec2dException`** as soon as one pixel has `invvar == 0` -/
theorem aesthetics_unknown_raises (erf : K → K) (flux invvar : List K) (gm : K) (h : ∃ v ∈ invvar, v = 0) :
    aestheticsFull erf flux invvar .unknown gm = .error "PydlException:Pydlspec2dException" := by
  have hb := (badpts_any invvar).2 h
  simp [aestheticsFull, aesthetics, hb]

/-- **'traditional' / 'noconst' are `djs_maskinterp(flux, invvar == 0, const = True / False)`**; every `maskinterp_*`
theorem therefore speaks about the replaced values -/
theorem aesthetics_is_maskinterp (erf : K → K) (flux invvar : List K) (gm : K) (h : ∃ v ∈ invvar, v = 0) :
    aestheticsFull erf flux invvar .traditional gm = .ok (maskinterp1 flux (invvar.map Interp.isZeroI) true) ∧
    aestheticsFull erf flux invvar .noconst gm = .ok (maskinterp1 flux (invvar.map Interp.isZeroI) false) := by
  have hb := (badpts_any invvar).2 h
  constructor <;> simp [aestheticsFull, aesthetics, hb]

/-- **'nothing' returns the flux** -/
theorem aesthetics_nothing (erf : K → K) (flux invvar : List K) (gm : K) :
    aestheticsFull erf flux invvar .nothing gm = .ok flux := by
  simp [aestheticsFull, aesthetics]


theorem badpts_get (invvar : List K) (i : Nat) (hi : i < invvar.length) :
    ((invvar.map Interp.isZeroI)[i]'(by simpa using hi) = true ↔ invvar[i] = 0) ∧
    ((invvar.map Interp.isZeroI)[i]'(by simpa using hi) = false ↔ invvar[i] ≠ 0) := by
  rw [List.getElem_map]
  constructor
  · exact interp_isZero_iff _
  · rw [Ne, ← interp_isZero_iff]; simp

/-- **'traditional' / 'noconst': a run of `invvar == 0` pixels between two good pixels `a < b` is replaced by the
straight line through `(a, flux[a])` and `(b, flux[b])`; a leading / trailing run takes the value of the first / last
good pixel** (for both methods: `np.interp` already holds the ends constant) -/
theorem aesthetics_replaced_values (erf : K → K) (flux invvar : List K) (gm : K) (m : Method)
    (hm : m = .traditional ∨ m = .noconst) (hlen : invvar.length = flux.length) :
    ∃ out, aestheticsFull erf flux invvar m gm = .ok out ∧
      (∀ a i b (_ : a < i) (_ : i < b) (hb : b < flux.length), invvar[a]'(by omega) ≠ 0 → invvar[b]'(by omega) ≠ 0 →
        (∀ k (_ : a < k) (_ : k < b), invvar[k]'(by omega) = 0) →
        out[i]? = some ((flux[b] - flux[a]'(by omega)) / ((b : K) - (a : K)) * ((i : K) - (a : K)) + flux[a]'(by omega))) ∧
      (∀ a (ha : a < flux.length), invvar[a]'(by omega) ≠ 0 → (∀ k (_ : k < a), invvar[k]'(by omega) = 0) →
        ∀ i, i < a → out[i]? = some flux[a]) ∧
      (∀ b (hb : b < flux.length), invvar[b]'(by omega) ≠ 0 →
        (∀ k (_ : b < k) (_ : k < flux.length), invvar[k]'(by omega) = 0) →
        ∀ i, b < i → i < flux.length → out[i]? = some flux[b]) := by
  have hbl : (invvar.map Interp.isZeroI).length = flux.length := by simp [hlen]
  have key : ∀ const : Bool,
      (∀ a i b (_ : a < i) (_ : i < b) (hb : b < flux.length), invvar[a]'(by omega) ≠ 0 → invvar[b]'(by omega) ≠ 0 →
        (∀ k (_ : a < k) (_ : k < b), invvar[k]'(by omega) = 0) →
        (maskinterp1 flux (invvar.map Interp.isZeroI) const)[i]? =
          some ((flux[b] - flux[a]'(by omega)) / ((b : K) - (a : K)) * ((i : K) - (a : K)) + flux[a]'(by omega))) ∧
      (∀ a (ha : a < flux.length), invvar[a]'(by omega) ≠ 0 → (∀ k (_ : k < a), invvar[k]'(by omega) = 0) →
        ∀ i, i < a → (maskinterp1 flux (invvar.map Interp.isZeroI) const)[i]? = some flux[a]) ∧
      (∀ b (hb : b < flux.length), invvar[b]'(by omega) ≠ 0 →
        (∀ k (_ : b < k) (_ : k < flux.length), invvar[k]'(by omega) = 0) →
        ∀ i, b < i → i < flux.length → (maskinterp1 flux (invvar.map Interp.isZeroI) const)[i]? = some flux[b]) := by
    intro const
    refine ⟨?_, ?_, ?_⟩
    · intro a i b hai hib hb ga gb hmid
      exact maskinterp_linear flux _ const hbl a i b hai hib hb
        ((badpts_get invvar a (by omega)).2.2 ga) ((badpts_get invvar b (by omega)).2.2 gb)
        (fun k h1 h2 => (badpts_get invvar k (by omega)).1.2 (hmid k h1 h2))
    · intro a ha ga hpre i hi
      exact (ends_constant flux _ const hbl).1 a ha ((badpts_get invvar a (by omega)).2.2 ga)
        (fun k hk => (badpts_get invvar k (by omega)).1.2 (hpre k hk)) i hi
    · intro b hb gb hpost i hbi hi
      exact (ends_constant flux _ const hbl).2 b hb ((badpts_get invvar b (by omega)).2.2 gb)
        (fun k h1 h2 => (badpts_get invvar k (by omega)).1.2 (hpost k h1 h2)) i hbi hi
  by_cases h : ∃ v ∈ invvar, v = 0
  · obtain ⟨h1, h2⟩ := aesthetics_is_maskinterp erf flux invvar gm h
    rcases hm with rfl | rfl
    · exact ⟨_, h1, key true⟩
    · exact ⟨_, h2, key false⟩
  · -- no bad pixel at all: the flux is returned and the three clauses have no instance with a bad pixel
    have hall : ∀ v ∈ invvar, v ≠ 0 := fun v hv h0 => h ⟨v, hv, h0⟩
    refine ⟨flux, aesthetics_clean erf flux invvar m gm hall, ?_, ?_, ?_⟩
    · intro a i b hai hib hb _ _ hmid
      exact absurd (hmid i hai hib) (hall _ (List.getElem_mem _))
    · intro a ha _ hpre i hi
      exact absurd (hpre i hi) (hall _ (List.getElem_mem _))
    · intro b hb _ hpost i hbi hi
      exact absurd (hpost i hbi hi) (hall _ (List.getElem_mem _))

/-- **'mean'**: when some pixel has `invvar == 0`, every pixel with `invvar > 0` keeps its flux and every other pixel
(`invvar == 0`, and `invvar < 0` if present) gets `gm` = the mean of the flux over the pixels with `invvar > 0`
(`newflux[goodpts].mean()`, computed by numpy: parameter) -/
theorem aesthetics_mean_values (erf : K → K) (flux invvar : List K) (gm : K) (hlen : invvar.length = flux.length)
    (h : ∃ v ∈ invvar, v = 0) :
    ∃ out, aestheticsFull erf flux invvar .mean gm = .ok out ∧ out.length = flux.length ∧
      ∀ i (hi : i < flux.length), out[i]? = some (if invvar[i]'(by omega) > 0 then flux[i] else gm) := by
  have hb := (badpts_any invvar).2 h
  have he : aestheticsFull erf flux invvar .mean gm =
      .ok ((flux.zip invvar).map fun (f, v) => if decide (v > 0) then f else gm) := by
    simp only [aestheticsFull, aesthetics, hb, if_true, scalar_lit, Nat.cast_zero]
  refine ⟨_, he, by simp [hlen], ?_⟩
  intro i hi
  have hi' : i < invvar.length := by omega
  have hz : (flux.zip invvar)[i]? = some (flux[i], invvar[i]) :=
    List.getElem?_zip_eq_some.2 ⟨List.getElem?_eq_getElem hi, List.getElem?_eq_getElem hi'⟩
  rw [List.getElem?_map, hz]
  simp

/-- the exact mean of the flux over the pixels with `invvar > 0` -/
noncomputable def meanGood (flux invvar : List K) : K :=
  (((flux.zip invvar).filter (fun p => decide (p.2 > 0))).map (·.1)).sum /
    (((flux.zip invvar).filter (fun p => decide (p.2 > 0))).length : K)

/-- 'mean' with the exact mean: the pixels without positive inverse variance get (sum of the good flux values) /
(number of good pixels) -/
theorem aesthetics_mean_exact (erf : K → K) (flux invvar : List K) (hlen : invvar.length = flux.length)
    (h : ∃ v ∈ invvar, v = 0) :
    ∃ out, aestheticsFull erf flux invvar .mean (meanGood flux invvar) = .ok out ∧ out.length = flux.length ∧
      ∀ i (hi : i < flux.length),
        out[i]? = some (if invvar[i]'(by omega) > 0 then flux[i] else meanGood flux invvar) :=
  aesthetics_mean_values erf flux invvar _ hlen h


/-- the factor `0.5*(1+erf((pixels-mingood)/damp1))`, `damp1 = min(mingood, 250)`, applied to EVERY pixel when bad
pixels lead (`mingood > 0`); 1 otherwise -/
def dampL (erf : K → K) (lo i : Nat) : K :=
  if lo > 0 then 0.5 * (1.0 + erf (((i : K) - (lo : K)) / ((min lo 250 : Nat) : K))) else 1

/-- the factor `0.5*(1+erf((maxgood-pixels)/damp2))`, `damp2 = max(min(maxgood, 250), 1)`, applied to EVERY pixel when
bad pixels trail (`maxgood < nflux-1`); 1 otherwise -/
def dampR (erf : K → K) (hi n i : Nat) : K :=
  if hi < n - 1 then 0.5 * (1.0 + erf (((hi : K) - (i : K)) / ((max (min hi 250) 1 : Nat) : K))) else 1

theorem goodP (invvar : List K) (k : Nat) (hk : k < invvar.length) :
    ((fun i => !((invvar.map Interp.isZeroI).getD i true)) k = true ↔ invvar[k] ≠ 0) ∧
    ((fun i => !((invvar.map Interp.isZeroI).getD i true)) k = false ↔ invvar[k] = 0) := by
  have e : (invvar.map Interp.isZeroI).getD k true = Interp.isZeroI invvar[k] := by
    rw [List.getD_eq_getElem?_getD, List.getElem?_map, List.getElem?_eq_getElem hk]; rfl
  simp only [e, Bool.not_eq_true', Bool.not_eq_false']
  constructor
  · rw [Ne, ← interp_isZero_iff]; simp
  · exact interp_isZero_iff _

/-- **aesthetics('damp'), the code's formula** (`lo` = first, `hi` = last pixel with `invvar != 0`, some pixel with
`invvar == 0`): the result is `djs_maskinterp(flux, invvar == 0, const=True)` multiplied - at EVERY pixel, good ones
included - by `dampL` (≠ 1 only when bad pixels lead) and by `dampR` (≠ 1 only when bad pixels trail) -/
theorem damp_formula (erf : K → K) (flux invvar : List K) (hlen : invvar.length = flux.length)
    (lo hi : Nat) (hlh : lo ≤ hi) (hhi : hi < flux.length)
    (glo : invvar[lo]'(by omega) ≠ 0) (ghi : invvar[hi]'(by omega) ≠ 0)
    (hpre : ∀ k (_ : k < lo), invvar[k]'(by omega) = 0)
    (hpost : ∀ k (_ : hi < k) (_ : k < flux.length), invvar[k]'(by omega) = 0)
    (hbad : ∃ v ∈ invvar, v = 0) :
    ∃ out, aestheticsDamp erf flux invvar = .ok out ∧ out.length = flux.length ∧
      ∀ i (_ : i < flux.length), out[i]? = some
        ((maskinterp1 flux (invvar.map Interp.isZeroI) true).getD i 0 * dampL erf lo i *
          dampR erf hi flux.length i) := by
  have hb := (badpts_any invvar).2 hbad
  have h1 := filter_range_head (fun i => !((invvar.map Interp.isZeroI).getD i true)) invvar.length lo (by omega)
    ((goodP invvar lo (by omega)).1.2 glo) (fun k hk => (goodP invvar k (by omega)).2.2 (hpre k hk))
  have h2 := filter_range_last (fun i => !((invvar.map Interp.isZeroI).getD i true)) hi
    ((goodP invvar hi (by omega)).1.2 ghi) invvar.length (by omega)
    (fun k hk1 hk2 => (goodP invvar k hk2).2.2 (hpost k hk1 (by omega)))
  have hl0 := maskinterp1_length flux (invvar.map Interp.isZeroI) true
  unfold aestheticsDamp
  simp only [hb, if_true, h1, h2]
  refine ⟨_, rfl, ?_, ?_⟩
  · split <;> split <;> simp only [List.length_map, List.length_range, hl0]
  · intro i hi'
    unfold dampL dampR
    have hi0 : i < (maskinterp1 flux (invvar.map Interp.isZeroI) true).length := by omega
    by_cases c1 : lo > 0 <;> by_cases c2 : hi < flux.length - 1 <;>
      simp only [c1, c2, if_true, if_false, List.getElem?_map, List.length_map, List.length_range, hl0,
        List.getElem?_range hi', Option.map_some, List.getD_eq_getElem?_getD, Option.getD_some, scalar_ofNat,
        scalar_sci, mul_one, List.getElem?_eq_getElem hi0]


/-- **aesthetics('damp'), pixel by pixel** (same hypotheses as `damp_formula`; `L i = dampL erf lo i`,
`R i = dampR erf hi n i`): a good pixel becomes `flux[i]·L i·R i`; a run of bad pixels between the good pixels `a < b`
becomes the straight line through them times `L i·R i`; the leading bad pixels become `flux[lo]·L i·R i`, the trailing
ones `flux[hi]·L i·R i` -/
theorem damp_values (erf : K → K) (flux invvar : List K) (hlen : invvar.length = flux.length)
    (lo hi : Nat) (hlh : lo ≤ hi) (hhi : hi < flux.length)
    (glo : invvar[lo]'(by omega) ≠ 0) (ghi : invvar[hi]'(by omega) ≠ 0)
    (hpre : ∀ k (_ : k < lo), invvar[k]'(by omega) = 0)
    (hpost : ∀ k (_ : hi < k) (_ : k < flux.length), invvar[k]'(by omega) = 0)
    (hbad : ∃ v ∈ invvar, v = 0) :
    ∃ out, aestheticsDamp erf flux invvar = .ok out ∧ out.length = flux.length ∧
      (∀ i (hi' : i < flux.length), invvar[i]'(by omega) ≠ 0 →
        out[i]? = some (flux[i] * dampL erf lo i * dampR erf hi flux.length i)) ∧
      (∀ a i b (_ : a < i) (_ : i < b) (hb : b < flux.length), invvar[a]'(by omega) ≠ 0 → invvar[b]'(by omega) ≠ 0 →
        (∀ k (_ : a < k) (_ : k < b), invvar[k]'(by omega) = 0) →
        out[i]? = some (((flux[b] - flux[a]'(by omega)) / ((b : K) - (a : K)) * ((i : K) - (a : K)) + flux[a]'(by omega)) *
          dampL erf lo i * dampR erf hi flux.length i)) ∧
      (∀ i, i < lo → out[i]? = some (flux[lo]'(by omega) * dampL erf lo i * dampR erf hi flux.length i)) ∧
      (∀ i, hi < i → i < flux.length → out[i]? = some (flux[hi] * dampL erf lo i * dampR erf hi flux.length i)) := by
  obtain ⟨out, h1, h2, h3⟩ := damp_formula erf flux invvar hlen lo hi hlh hhi glo ghi hpre hpost hbad
  have hbl : (invvar.map Interp.isZeroI).length = flux.length := by simp [hlen]
  have conv : ∀ i (v : K), (maskinterp1 flux (invvar.map Interp.isZeroI) true)[i]? = some v →
      (maskinterp1 flux (invvar.map Interp.isZeroI) true).getD i 0 = v := by
    intro i v h; rw [List.getD_eq_getElem?_getD, h]; rfl
  refine ⟨out, h1, h2, ?_, ?_, ?_, ?_⟩
  · intro i hi' g
    rw [h3 i hi', conv i _ (maskinterp_only_masked flux _ true hbl i hi' ((badpts_get invvar i (by omega)).2.2 g))]
  · intro a i b hai hib hb ga gb hmid
    rw [h3 i (by omega), conv i _ (maskinterp_linear flux _ true hbl a i b hai hib hb
      ((badpts_get invvar a (by omega)).2.2 ga) ((badpts_get invvar b (by omega)).2.2 gb)
      (fun k k1 k2 => (badpts_get invvar k (by omega)).1.2 (hmid k k1 k2)))]
  · intro i hi'
    rw [h3 i (by omega), conv i _ ((ends_constant flux _ true hbl).1 lo (by omega)
      ((badpts_get invvar lo (by omega)).2.2 glo)
      (fun k hk => (badpts_get invvar k (by omega)).1.2 (hpre k hk)) i hi')]
  · intro i hi1 hi2
    rw [h3 i hi2, conv i _ ((ends_constant flux _ true hbl).2 hi hhi
      ((badpts_get invvar hi (by omega)).2.2 ghi)
      (fun k k1 k2 => (badpts_get invvar k (by omega)).1.2 (hpost k k1 k2)) i hi1 hi2)]

/-- **aesthetics('damp') leaves the good pixels alone exactly in the situation "first and last pixel good"**: then both
factors are 1 and the result is `djs_maskinterp(flux, invvar == 0, const=True)` - good pixels unchanged, bad runs
interpolated linearly -/
theorem damp_ends_good (erf : K → K) (flux invvar : List K) (hlen : invvar.length = flux.length)
    (hn : 0 < flux.length) (g0 : invvar[0]'(by omega) ≠ 0) (g1 : invvar[flux.length - 1]'(by omega) ≠ 0)
    (hbad : ∃ v ∈ invvar, v = 0) :
    ∃ out, aestheticsDamp erf flux invvar = .ok out ∧ out = maskinterp1 flux (invvar.map Interp.isZeroI) true ∧
      ∀ i (hi' : i < flux.length), invvar[i]'(by omega) ≠ 0 → out[i]? = some flux[i] := by
  obtain ⟨out, h1, h2, h3⟩ := damp_formula erf flux invvar hlen 0 (flux.length - 1) (by omega) (by omega) g0 g1
    (fun k hk => absurd hk (by omega)) (fun k k1 k2 => absurd k1 (by omega)) hbad
  have hbl : (invvar.map Interp.isZeroI).length = flux.length := by simp [hlen]
  have hl0 := maskinterp1_length flux (invvar.map Interp.isZeroI) true
  have e : out = maskinterp1 flux (invvar.map Interp.isZeroI) true := by
    apply List.ext_getElem?
    intro i
    by_cases hi' : i < flux.length
    · rw [h3 i hi']
      simp only [dampL, dampR, lt_self_iff_false, if_false, mul_one]
      rw [List.getD_eq_getElem?_getD, List.getElem?_eq_getElem (by omega)]; rfl
    · rw [List.getElem?_eq_none (by omega), List.getElem?_eq_none (by omega)]
  refine ⟨out, h1, e, ?_⟩
  intro i hi' g
  rw [e]
  exact maskinterp_only_masked flux _ true hbl i hi' ((badpts_get invvar i (by omega)).2.2 g)

/-- **aesthetics('damp') with bad leading pixels changes a good pixel** (why "flux changes only where invvar = 0" is
not claimed for 'damp'): for an odd function `erf` (`erf 0 = 0`) the first good pixel `lo > 0` is halved (times the
trailing factor) -/
theorem damp_halves_first_good (erf : K → K) (he : erf 0 = 0) (flux invvar : List K)
    (hlen : invvar.length = flux.length) (lo hi : Nat) (hlh : lo ≤ hi) (hhi : hi < flux.length) (hlo : 0 < lo)
    (glo : invvar[lo]'(by omega) ≠ 0) (ghi : invvar[hi]'(by omega) ≠ 0)
    (hpre : ∀ k (_ : k < lo), invvar[k]'(by omega) = 0)
    (hpost : ∀ k (_ : hi < k) (_ : k < flux.length), invvar[k]'(by omega) = 0) :
    ∃ out, aestheticsDamp erf flux invvar = .ok out ∧
      out[lo]? = some (flux[lo]'(by omega) / 2 * dampR erf hi flux.length lo) := by
  have hbad : ∃ v ∈ invvar, v = 0 := ⟨_, List.getElem_mem (by omega : 0 < invvar.length), hpre 0 hlo⟩
  obtain ⟨out, h1, _, h3, _⟩ := damp_values erf flux invvar hlen lo hi hlh hhi glo ghi hpre hpost hbad
  refine ⟨out, h1, ?_⟩
  rw [h3 lo (by omega) glo]
  congr 2
  simp only [dampL, hlo, if_true, sub_self, zero_div, he]
  norm_num
  ring

/-- **aesthetics('damp') without any good pixel raises ValueError** (`goodpts.min()` of an empty array) -/
theorem damp_no_good_raises (erf : K → K) (flux invvar : List K) (hne : invvar ≠ [])
    (hall : ∀ v ∈ invvar, v = 0) : aestheticsDamp erf flux invvar = .error "ValueError" := by
  have hb : (invvar.map Interp.isZeroI).any id = true := by
    rw [badpts_any]
    cases invvar with
    | nil => exact absurd rfl hne
    | cons v l => exact ⟨v, List.mem_cons_self, hall v List.mem_cons_self⟩
  have hnil := filter_range_nil (fun i => !((invvar.map Interp.isZeroI).getD i true)) invvar.length
    (fun k hk => (goodP invvar k hk).2.2 (hall _ (List.getElem_mem hk)))
  unfold aestheticsDamp
  simp only [hb, if_true, hnil, List.head?_nil, List.getLast?_nil]

/-- non-vacuity of `damp_formula` / `damp_values` / `damp_halves_first_good`: `flux = [1, 2, 3]`, `invvar = [0, 1, 0]`
(one good pixel, bad pixels lead and trail) meets the hypotheses with `lo = hi = 1` -/
example : ∃ out, aestheticsDamp (fun x : ℚ => x) [1, 2, 3] [0, 1, 0] = .ok out ∧ out.length = 3 :=
  let ⟨out, h1, h2, _⟩ := damp_formula (fun x : ℚ => x) [1, 2, 3] [0, 1, 0] rfl 1 1 (by omega) (by decide)
    (by decide) (by decide)
    (by intro k hk; have : k = 0 := by omega
        subst this; rfl)
    (by intro k h1 h2; have h3 : k < 3 := h2
        have : k = 2 := by omega
        subst this; rfl)
    ⟨0, List.mem_cons_self, rfl⟩
  ⟨out, h1, h2⟩

end aesthetics

section misc
variable {K : Type} [Field K] [LinearOrder K] [IsStrictOrderedRing K] [FloorRing K]
attribute [local instance] fieldScalar
attribute [-instance] Scalar.instOfNat Scalar.instOfScientific

/-- **no unmasked sample at all: the input is returned unchanged** (index mode, any `const`) -/
theorem maskinterp_all_masked (y : List K) (bad : List Bool) (const : Bool) (hlen : bad.length = y.length)
    (hall : ∀ i (hi : i < y.length), bad[i] = true) : maskinterp1 y bad const = y := by
  have hmap : (ptsIdx y bad).map (·.y) = y := by
    apply List.ext_getElem
    · simp [ptsIdx_length]
    · intro i h1 h2
      rw [List.getElem_map, ptsIdx_get y bad hlen i h2]
  have hb : ∀ p ∈ ptsIdx y bad, p.bad = true := by
    intro p hp
    obtain ⟨k, hk, rfl⟩ := List.getElem_of_mem hp
    rw [ptsIdx_length] at hk
    rw [ptsIdx_get y bad hlen k hk]
    exact hall k hk
  unfold maskinterp1 interpCore
  split
  · exact hmap
  · rw [goodPts_all_bad _ hb]
    exact hmap

set_option linter.unusedSimpArgs false in
/-- **djs_maskinterp, the refusals**: mask (or xval) of another shape, more than one dimension without `axis`, an axis
outside `0 … ndim-1`, more than three dimensions: ValueError; one dimension: the 1-D routine, `axis` ignored -/
theorem maskinterp_refusals (argsort : List K → List Nat) (yshape mshape : List Nat) (xshape : Option (List Nat))
    (y : List K) (bad : List Bool) (x : List K) (axis : Option Int) (const : Bool) :
    (mshape ≠ yshape → maskinterp argsort yshape mshape xshape y bad x axis const = .error "ValueError") ∧
    (∀ xs, xshape = some xs → xs ≠ yshape →
      maskinterp argsort yshape mshape xshape y bad x axis const = .error "ValueError") ∧
    (mshape = yshape → xshape = none ∨ xshape = some yshape → yshape.length ≠ 1 →
      (axis = none → maskinterp argsort yshape mshape xshape y bad x axis const = .error "ValueError") ∧
      (∀ a, axis = some a → a < 0 ∨ a > (yshape.length : Int) - 1 →
        maskinterp argsort yshape mshape xshape y bad x axis const = .error "ValueError") ∧
      (∀ a, axis = some a → yshape.length ≠ 2 → yshape.length ≠ 3 →
        maskinterp argsort yshape mshape xshape y bad x axis const = .error "ValueError")) ∧
    (mshape = yshape → yshape.length = 1 →
      (xshape = none → maskinterp argsort yshape mshape xshape y bad x axis const = .ok (maskinterp1 y bad const)) ∧
      (xshape = some yshape → maskinterp argsort yshape mshape xshape y bad x axis const =
        .ok (maskinterp1X y bad x (argsort x) const))) := by
  refine ⟨?_, ?_, ?_, ?_⟩
  · intro h
    unfold maskinterp
    simp [h, bind, Except.bind, throw, throwThe, MonadExceptOf.throw]
  · intro xs hx hne
    subst hx
    unfold maskinterp
    by_cases hm : mshape = yshape
    · simp [hm, hne, bind, Except.bind, throw, throwThe, MonadExceptOf.throw, pure, Except.pure]
    · simp [hm, bind, Except.bind, throw, throwThe, MonadExceptOf.throw]
  · intro hm hx hnd
    have h1 : (yshape.length == 1) = false := by
      cases hb : (yshape.length == 1) with
      | true => simp at hb; exact absurd hb hnd
      | false => rfl
    refine ⟨?_, ?_, ?_⟩
    · intro ha
      subst ha
      unfold maskinterp
      rcases hx with rfl | rfl <;>
        simp [hm, h1, bind, Except.bind, throw, throwThe, MonadExceptOf.throw, pure, Except.pure]
    · intro a ha hr
      subst ha
      unfold maskinterp
      rcases hx with rfl | rfl <;>
        simp [hm, h1, hr, bind, Except.bind, throw, throwThe, MonadExceptOf.throw, pure, Except.pure]
    · intro a ha h2 h3
      subst ha
      unfold maskinterp
      rcases hx with rfl | rfl <;>
        simp [hm, h1, h2, h3, bind, Except.bind, throw, throwThe, MonadExceptOf.throw, pure, Except.pure]
  · intro hm hnd
    have h1 : (yshape.length == 1) = true := by rw [hnd]; rfl
    constructor
    · intro hx; subst hx
      unfold maskinterp
      simp [hm, h1, bind, Except.bind, pure, Except.pure]
    · intro hx; subst hx
      unfold maskinterp
      simp [hm, h1, bind, Except.bind, pure, Except.pure]

/-- **djs_reject, the calls that do not reach the rejection rule**: an `outmask`, `model`, `inmask` or `sigma`/`invvar`
of another size raises ValueError; `model=None` returns `(inmask or the previous outmask or all ones, qdone=False)` -/
theorem reject_refusals (sqrt : K → K) (o : Opts K) (data : List K) (model : Option (List K))
    (outmask inmask : Option (List Bool)) (s : List K) :
    (∀ om, outmask = some om → om.length ≠ data.length →
      djsReject sqrt o data model outmask inmask s = .error "ValueError") ∧
    ((∀ om, outmask = some om → om.length = data.length) → model = none →
      djsReject sqrt o data model outmask inmask s =
        .ok ((match inmask with
              | some im => im
              | none => (match outmask with | some om => om | none => List.replicate data.length true)), false)) ∧
    ((∀ om, outmask = some om → om.length = data.length) → ∀ mdl, model = some mdl →
      (mdl.length ≠ data.length ∨ (∃ im, inmask = some im ∧ im.length ≠ data.length) ∨ s.length ≠ data.length) →
      djsReject sqrt o data model outmask inmask s = .error "ValueError") := by
  refine ⟨?_, ?_, ?_⟩
  · intro om ho hne
    subst ho
    simp [djsReject, hne, bind, Except.bind, throw, throwThe, MonadExceptOf.throw]
  · intro ho hm
    subst hm
    cases outmask with
    | none => cases inmask <;> simp [djsReject, bind, Except.bind, pure, Except.pure]
    | some om => cases inmask <;> simp [djsReject, ho om rfl, bind, Except.bind, pure, Except.pure]
  · intro ho mdl hm hbad
    subst hm
    have hom' : ∀ om, outmask = some om → (om.length = data.length) = True := fun om h => eq_true (ho om h)
    rcases outmask with _ | om
    all_goals
      first
        | have hom := hom' om rfl
        | have hom : True := trivial
      by_cases h1 : mdl.length ≠ data.length
      · simp [djsReject, hom, h1, bind, Except.bind, throw, throwThe, MonadExceptOf.throw, pure, Except.pure]
      · rcases hbad with h | ⟨im, rfl, h⟩ | h
        · exact absurd h h1
        · simp [djsReject, hom, h1, h, bind, Except.bind, throw, throwThe, MonadExceptOf.throw, pure, Except.pure]
        · rcases inmask with _ | im
          · simp [djsReject, hom, h1, h, bind, Except.bind, throw, throwThe, MonadExceptOf.throw, pure, Except.pure]
          · by_cases h2 : im.length ≠ data.length
            · simp [djsReject, hom, h1, h2, bind, Except.bind, throw, throwThe, MonadExceptOf.throw, pure, Except.pure]
            · simp [djsReject, hom, h1, h2, h, bind, Except.bind, throw, throwThe, MonadExceptOf.throw, pure, Except.pure]

end misc

section median2
variable {K : Type} [Field K] [LinearOrder K] [IsStrictOrderedRing K] [FloorRing K]
attribute [local instance] fieldScalar
attribute [-instance] Scalar.instOfNat Scalar.instOfScientific

theorem w_ne_one (h : Nat) (hh : 1 ≤ h) : ((2 * h + 1 == 1) = false) := by
  cases hb : (2 * h + 1 == 1) with
  | true => simp at hb; omega
  | false => rfl

omit [LinearOrder K] [IsStrictOrderedRing K] [FloorRing K] in
/-- the 1-D reflection `ext` reads the array at the reflected index `reflIdx` -/
theorem ext_eq_reflIdx (a : List K) (j : Int) : ext a j = a.getD (reflIdx a.length j) 0 := by
  unfold ext reflIdx
  split
  · rfl
  · split <;> rfl

/-- **the 2-D reflecting running median** (`djs_median(a, width = 2h+1, boundary = 'reflect')`, `a` an `n0 × n1` array
given C-order flattened, `h ≥ 1`, both axes at least `h+1` long - the domain on which the code accepts the call):
the call succeeds, the result has the shape of the input, and output pixel `(i, j)` is the window median `med` of the
`(2h+1) × (2h+1)` values `ext2 a (i-h … i+h) (j-h … j+h)` (listed row by row) of the image reflected symmetrically
about its four edges, `ext2 a n0 n1 r c = a[reflIdx n0 r, reflIdx n1 c]` - for any window-median kernel `med`
(the contract of `scipy.signal.medfilt2d`, as in the 1-D theorem) -/
theorem median_reflect_2d (med : List K → K) (n0 n1 : Nat) (a : List K) (h : Nat) (hh : 1 ≤ h)
    (h0 : h + 1 ≤ n0) (h1 : h + 1 ≤ n1) :
    ∃ out, djsMedian2 med n0 n1 a (2 * h + 1) .reflect = .ok out ∧ out.length = n0 * n1 ∧
      ∀ i j, i < n0 → j < n1 → out[i * n1 + j]? = some (med (win2 (ext2 a n0 n1) h i j)) := by
  unfold djsMedian2
  simp only [w_ne_one h hh, Bool.false_eq_true, if_false]
  exact djsMedianReflect2_spec med n0 n1 a h hh h0 h1

/-- **2-D, `boundary = 'none'`** (`median(array, width)`: `medfilt2d` with the borders restored): whenever the kernel
`min(width, size)` is odd the call succeeds; a pixel whose `(2h+1) × (2h+1)` window lies inside the array becomes the
median of that window, every pixel closer than `h` to an edge keeps its input value -/
theorem median_none_2d (med : List K → K) (n0 n1 : Nat) (a : List K) (h : Nat) (hh : 1 ≤ h)
    (hodd : (min (2 * h + 1) (n0 * n1)) % 2 = 1) :
    ∃ out, djsMedian2 med n0 n1 a (2 * h + 1) .none = .ok out ∧ out.length = n0 * n1 ∧
      ∀ i j, i < n0 → j < n1 →
        out[i * n1 + j]? = some (
          if h ≤ i ∧ i + h < n0 ∧ h ≤ j ∧ j + h < n1 then
            med (win2 (fun r c => a.getD (r.toNat * n1 + c.toNat) 0) h i j)
          else a.getD (i * n1 + j) 0) := by
  unfold djsMedian2
  simp only [w_ne_one h hh, Bool.false_eq_true, if_false]
  exact medianFilt2_spec med n0 n1 a h hodd

/-- **2-D, the remaining `boundary` clauses and the refusals**: width 1 returns the input for every boundary;
`'nearest'`, `'wrap'` and unknown names raise ValueError; `'none'` with an even kernel `min(width, size)` raises
ValueError (scipy); `'reflect'` with an axis shorter than `ceil(width/2)` (other than length 1) raises ValueError (numpy
cannot broadcast the reflected block); `'reflect'` with an even width `≤ size` raises ValueError -/
theorem median_2d_clauses (med : List K → K) (n0 n1 : Nat) (a : List K) :
    (∀ b, djsMedian2 med n0 n1 a 1 b = .ok a) ∧
    (∀ w, w ≠ 1 → djsMedian2 med n0 n1 a w .nearest = .error "ValueError" ∧
      djsMedian2 med n0 n1 a w .wrap = .error "ValueError" ∧ djsMedian2 med n0 n1 a w .other = .error "ValueError") ∧
    (∀ w, w ≠ 1 → (min w (n0 * n1)) % 2 = 0 → djsMedian2 med n0 n1 a w .none = .error "ValueError") ∧
    (∀ w, w ≠ 1 → (n0 < (w + 1) / 2 ∧ n0 ≠ 1) ∨ (n1 < (w + 1) / 2 ∧ n1 ≠ 1) →
      djsMedian2 med n0 n1 a w .reflect = .error "ValueError") ∧
    (∀ h, 1 ≤ h → 2 * h ≤ n0 * n1 → h ≤ n0 → h ≤ n1 →
      djsMedian2 med n0 n1 a (2 * h) .reflect = .error "ValueError") := by
  have ne1 : ∀ w, w ≠ 1 → (w == 1) = false := by
    intro w hw
    cases hb : (w == 1) with
    | true => simp at hb; exact absurd hb hw
    | false => rfl
  refine ⟨?_, ?_, ?_, ?_, ?_⟩
  · intro b; simp [djsMedian2]
  · intro w hw
    simp [djsMedian2, ne1 w hw]
  · intro w hw hev
    have : ((min w (n0 * n1)) % 2 == 0) = true := by rw [hev]; rfl
    simp only [djsMedian2, ne1 w hw, Bool.false_eq_true, if_false, medianFilt2, this, if_true]
  · intro w hw hs
    simp only [djsMedian2, ne1 w hw, Bool.false_eq_true, if_false]
    rw [djsMedianReflect2_eq]
    simp only [ne1 w hw, Bool.false_eq_true, if_false, if_pos hs]
  · intro h hh hsz h0 h1
    have hw : 2 * h ≠ 1 := by omega
    have p : (2 * h + 1) / 2 = h := by omega
    simp only [djsMedian2, ne1 _ hw, Bool.false_eq_true, if_false]
    rw [djsMedianReflect2_eq]
    simp only [ne1 _ hw, Bool.false_eq_true, if_false, p]
    rw [if_neg (by omega)]
    have hle : n0 * n1 ≤ (n0 + 2 * h) * (n1 + 2 * h) := Nat.mul_le_mul (by omega) (by omega)
    have hk : ((min (min (2 * h) (n0 * n1)) ((n0 + 2 * h) * (n1 + 2 * h))) % 2 == 0) = true := by
      have : min (min (2 * h) (n0 * n1)) ((n0 + 2 * h) * (n1 + 2 * h)) = 2 * h := by omega
      rw [this]
      have : 2 * h % 2 = 0 := by omega
      rw [this]; rfl
    simp only [medianFilt2, hk, if_true]


/-- **1-D, `boundary = 'none'`** (`median(array, width)`: `medfilt` with the borders restored): whenever the kernel
`min(width, size)` is odd the call succeeds; sample `i` with `h ≤ i` and `i + h < n` becomes the median of
`a[i-h … i+h]`, every sample closer than `h` to an end keeps its input value -/
theorem median_none (med : List K → K) (a : List K) (h : Nat) (hh : 1 ≤ h)
    (hodd : (min (2 * h + 1) a.length) % 2 = 1) :
    ∃ out, djsMedian1 med a (2 * h + 1) .none = .ok out ∧ out.length = a.length ∧
      ∀ i, i < a.length →
        out[i]? = some (
          if h ≤ i ∧ i + h < a.length then
            med ((List.range (2 * h + 1)).map (fun (k : Nat) => a.getD (i + k - h) 0))
          else a.getD i 0) := by
  have p1 : (2 * h + 1 + 1) / 2 = h + 1 := by omega
  have p2 : (2 * h + 1 - 1) / 2 = h := by omega
  have hev : ((min (2 * h + 1) a.length) % 2 == 0) = false := by rw [hodd]; rfl
  unfold djsMedian1 medianFilt
  simp only [w_ne_one h hh, Bool.false_eq_true, if_false, hev, p1, p2]
  refine ⟨_, rfl, by simp, ?_⟩
  intro i hi
  rw [List.getElem?_map, List.getElem?_range hi]
  simp only [Option.map_some, Option.some.injEq]
  by_cases hin : h ≤ i ∧ i + h < a.length
  · rw [if_pos hin, if_neg (by push_cast; omega)]
    have hkw : min (2 * h + 1) a.length = 2 * h + 1 := by omega
    have p3 : (2 * h + 1) / 2 = h := by omega
    simp only [hkw, p3]
    congr 1
    apply List.ext_getElem?
    intro k
    rw [List.getElem?_take, List.getElem?_drop, List.getElem?_map]
    by_cases hk : k < 2 * h + 1
    · rw [if_pos hk, List.getElem?_range hk, Option.map_some, List.getD_eq_getElem?_getD,
        List.getElem?_eq_getElem (by omega), List.getElem?_eq_getElem (by omega)]
      simp only [Option.getD_some, Option.some.injEq]
      congr 1
      omega
    · rw [if_neg hk, List.getElem?_eq_none (by simpa using hk)]; rfl
  · rw [if_neg hin, if_pos (by push_cast; omega)]
    simp only [scalar_lit, Nat.cast_zero]

/-- **1-D: every `boundary` other than `'none'` is the reflecting branch** ("forced to be 'reflect'"), so
`median_reflect` speaks about `'nearest'`, `'wrap'` and unknown names as well; width 1 returns the input -/
theorem median_1d_boundary (med : List K → K) (a : List K) (w : Nat) :
    (∀ b, djsMedian1 med a 1 b = .ok a) ∧
    (w ≠ 1 → djsMedian1 med a w .reflect = djsMedianReflect med a w ∧
      djsMedian1 med a w .nearest = djsMedianReflect med a w ∧ djsMedian1 med a w .wrap = djsMedianReflect med a w ∧
      djsMedian1 med a w .other = djsMedianReflect med a w) := by
  constructor
  · intro b; simp [djsMedian1]
  · intro hw
    have : (w == 1) = false := by
      cases hb : (w == 1) with
      | true => simp at hb; exact absurd hb hw
      | false => rfl
    simp [djsMedian1, this]

/-- **the reflecting running median, refusals** (1-D): an array shorter than `ceil(width/2)` - other than a single
value, which numpy broadcasts - raises ValueError; an even width `≥ 2` ALWAYS raises ValueError (the kernel of
`scipy.signal.medfilt` must be odd) -/
theorem median_reflect_refusals (med : List K → K) (a : List K) :
    (∀ w, w ≠ 1 → a.length < (w + 1) / 2 → a.length ≠ 1 → djsMedianReflect med a w = .error "ValueError") ∧
    (∀ h, 1 ≤ h → djsMedianReflect med a (2 * h) = .error "ValueError") := by
  have ne1 : ∀ w, w ≠ 1 → (w == 1) = false := by
    intro w hw
    cases hb : (w == 1) with
    | true => simp at hb; exact absurd hb hw
    | false => rfl
  constructor
  · intro w hw hs h1
    unfold djsMedianReflect
    simp only [ne1 w hw, Bool.false_eq_true, if_false]
    rw [if_pos ⟨hs, h1⟩]
  · intro h hh
    have p : (2 * h + 1) / 2 = h := by omega
    unfold djsMedianReflect
    simp only [ne1 (2 * h) (by omega), Bool.false_eq_true, if_false, p]
    split
    · rfl
    · rename_i hns
      have hk : ∀ big : List K, 2 * h ≤ big.length → medianFilt med big (2 * h) = .error "ValueError" := by
        intro big hb
        have : ((min (2 * h) big.length) % 2 == 0) = true := by
          rw [Nat.min_eq_left hb]
          have : 2 * h % 2 = 0 := by omega
          rw [this]; rfl
        simp only [medianFilt, this, if_true]
      have hbig : 2 * h ≤ (if a.length < h then List.replicate h (a.getD 0 0) ++ a ++ List.replicate h (a.getD 0 0)
          else (a.take h).reverse ++ a ++ (a.drop (a.length - h)).reverse).length := by
        split <;> simp <;> omega
      simp only [scalar_lit, Nat.cast_zero]
      rw [hk _ hbig]

/-- **the reflecting running median of a single value** (numpy broadcasts the one value into the padding): the
window median of `2h+1` copies of it -/
theorem median_reflect_single (med : List K → K) (v : K) (h : Nat) (hh : 1 ≤ h) :
    djsMedianReflect med [v] (2 * h + 1) = .ok [med (List.replicate (2 * h + 1) v)] := by
  have p1 : (2 * h + 1 + 1) / 2 = h + 1 := by omega
  have p2 : (2 * h + 1 - 1) / 2 = h := by omega
  have p3 : (2 * h + 1) / 2 = h := by omega
  have w1 : ((2 * h + 1 == 1) = false) := by
    cases hb : (2 * h + 1 == 1) with
    | true => simp at hb; omega
    | false => rfl
  have hbig : List.replicate (h + 1) v ++ [v] ++ List.replicate (h + 1) v = List.replicate (2 * h + 3) v := by
    rw [show [v] = List.replicate 1 v from rfl, List.replicate_append_replicate, List.replicate_append_replicate]
    congr 1; omega
  unfold djsMedianReflect
  simp only [w1, Bool.false_eq_true, if_false, p1, List.length_singleton]
  rw [if_neg (by omega), if_pos (by omega)]
  simp only [List.getD_cons_zero, hbig]
  unfold medianFilt
  have hmin : min (2 * h + 1) (2 * h + 3) = 2 * h + 1 := by omega
  have hodd : ((2 * h + 1) % 2 == 0) = false := by
    have : (2 * h + 1) % 2 = 1 := by omega
    rw [this]; rfl
  simp only [List.length_replicate, hmin, hodd, Bool.false_eq_true, if_false, p1, p2, p3]
  congr 1
  apply List.ext_getElem?
  intro k
  rw [List.getElem?_take, List.getElem?_drop, List.getElem?_map]
  by_cases hk : k < 1
  · have : k = 0 := by omega
    subst this
    rw [if_pos (by omega), List.getElem?_range (by omega)]
    simp only [Option.map_some, Nat.add_zero]
    rw [if_neg (by push_cast; omega)]
    simp only [List.drop_replicate, List.take_replicate, List.getElem?_cons_zero]
    congr 3
    omega
  · rw [if_neg hk]
    rw [List.getElem?_eq_none (by simp; omega)]

/-- non-vacuity of `median_reflect_2d` (`h = 1`, a `2 × 2` image `[[1, 2], [3, 4]]`): the reflected image continues
`1` beyond the top-left corner, `4` beyond the bottom-right corner and mirrors column 1 into column 2 -/
example : (1 ≤ 1 ∧ 1 + 1 ≤ 2) ∧ ext2 ([1, 2, 3, 4] : List ℚ) 2 2 (-1) (-1) = 1 ∧
    ext2 ([1, 2, 3, 4] : List ℚ) 2 2 2 2 = 4 ∧ ext2 ([1, 2, 3, 4] : List ℚ) 2 2 0 2 = 2 ∧
    ext2 ([1, 2, 3, 4] : List ℚ) 2 2 1 (-1) = 3 := by
  refine ⟨⟨by omega, by omega⟩, ?_, ?_, ?_, ?_⟩ <;> (unfold ext2 reflIdx; norm_num)

end median2

/-! ## djs_reject called WITH `maxrej` (third extension round)

The property statement does not cover `maxrej`.  The theorems say what the block of the repository code guarantees:
it NEVER limits the number of rejected points - a call with `maxrej` raises or returns exactly what the call without it
returns (so every theorem above carries over to every call that returns), with the list of which calls return. -/
section maxrej
variable {K : Type} [Field K] [LinearOrder K] [IsStrictOrderedRing K] [FloorRing K]
attribute [local instance] fieldScalar
attribute [-instance] Scalar.instOfNat Scalar.instOfScientific

/-- **a call with `maxrej` that returns, returns the result of the call without `maxrej`** - for every loop body
(lines 380-427 are never executed), every `maxrej` / `groupdim` / `groupsize` / `groupbadpix`, every shape, every input.
In particular "at most `maxrej` points are newly rejected" does NOT hold for the repository code. -/
theorem maxrej_never_limits (sqrt : K → K) (body : Nat → List Nat → Nat → List K → Except String (List K))
    (o : Opts K) (g : MaxrejOpts) (G : GroupOpts) (shape : List Nat) (data : List K) (model : Option (List K))
    (outmask inmask : Option (List Bool)) (s : List K) (r : List Bool × Bool)
    (h : djsRejectMaxrej sqrt body o g shape data model outmask inmask s = .ok r) :
    djsRejectFull sqrt o G shape data model outmask inmask s = .ok r := by
  rcases outmask with _ | om <;> rcases model with _ | mdl <;> rcases inmask with _ | im <;>
    simp only [djsRejectMaxrej, djsRejectFull, djsReject, bind, Except.bind, pure, Except.pure, throw, throwThe,
      MonadExceptOf.throw] at h ⊢ <;>
    (try split_ifs at h ⊢) <;> (try (first | exact h | cases h))
  all_goals
    split at h
    · cases h
    · first
      | cases h
      | (split at h
         · cases h
         · rename_i b hb
           rw [maxrejBlock_ok _ _ _ _ _ hb] at h
           rw [← finishMask_badness]; exact h)

/-- every call with `maxrej` that returns, returns the end of the routine applied to the UNLIMITED working array of the
flattened data: `reject_mask_nd`, `finishMask_spec`, `qdone_iff_unchanged_full` apply to it as they are -/
theorem maxrej_ok_is_rule (sqrt : K → K) (body : Nat → List Nat → Nat → List K → Except String (List K))
    (o : Opts K) (g : MaxrejOpts) (shape : List Nat) (data mdl : List K)
    (outmask inmask : Option (List Bool)) (s : List K) (r : List Bool × Bool)
    (h : djsRejectMaxrej sqrt body o g shape data (some mdl) outmask inmask s = .ok r) :
    ∃ px : List (Pix K), px.length = data.length ∧
      r = finishMask { o with hasIn := inmask.isSome } px (px.map (badness sqrt { o with hasIn := inmask.isSome })) := by
  rcases outmask with _ | om <;> rcases inmask with _ | im <;>
    simp only [djsRejectMaxrej, bind, Except.bind, pure, Except.pure, throw, throwThe,
      MonadExceptOf.throw] at h <;>
    (try split_ifs at h)
  all_goals
    split at h
    · cases h
    · first
      | (cases h; done)
      | (split at h
         · cases h
         · rename_i b hb
           rw [maxrejBlock_ok _ _ _ _ _ hb] at h
           exact ⟨_, by simp, (Except.ok.inj h).symm⟩)

/-- when the option checks pass and the block is skipped, the call with `maxrej` IS the call without it
(equality of results including the refusals) -/
theorem maxrej_ignored_when_skipped (sqrt : K → K) (body : Nat → List Nat → Nat → List K → Except String (List K))
    (o : Opts K) (g : MaxrejOpts) (G : GroupOpts) (shape : List Nat) (data : List K) (model : Option (List K))
    (outmask inmask : Option (List Bool)) (s : List K) (gg : List Int × PyArg)
    (hc : maxrejChecks g shape = .ok gg) (hb : ∀ bad : List K, maxrejBlock body gg.1 shape bad = .ok bad) :
    djsRejectMaxrej sqrt body o g shape data model outmask inmask s =
      djsRejectFull sqrt o G shape data model outmask inmask s := by
  rcases outmask with _ | om <;> rcases model with _ | mdl <;> rcases inmask with _ | im <;>
    simp only [djsRejectMaxrej, djsRejectFull, djsReject, bind, Except.bind, pure, Except.pure, throw, throwThe,
      MonadExceptOf.throw, hc, hb, finishMask_badness]

/-- **1-D data (not empty): `maxrej` is ignored** whenever the option checks pass and no `groupdim` entry exceeds 1:
the call is `djsReject`, the routine all earlier theorems are about -/
theorem maxrej_1d_ignored (sqrt : K → K) (body : Nat → List Nat → Nat → List K → Except String (List K))
    (o : Opts K) (g : MaxrejOpts) (G : GroupOpts) (data : List K) (model : Option (List K))
    (outmask inmask : Option (List Bool)) (s : List K) (gg : List Int × PyArg) (hne : data ≠ [])
    (hc : maxrejChecks g [data.length] = .ok gg) (hgd : ∀ x ∈ gg.1, x ≤ 1) :
    djsRejectMaxrej sqrt body o g [data.length] data model outmask inmask s =
      djsReject sqrt o data model outmask inmask s :=
  maxrej_ignored_when_skipped sqrt body o g G [data.length] data model outmask inmask s gg hc
    (fun bad => maxrejBlock_1d body gg.1 data.length (by simpa using hne) hgd bad)

/-- **without `groupdim` `maxrej` is ignored for data of every shape** (`dimnum = [0]`, `range(0)`) -/
theorem maxrej_nogroupdim_ignored (sqrt : K → K) (body : Nat → List Nat → Nat → List K → Except String (List K))
    (o : Opts K) (g : MaxrejOpts) (G : GroupOpts) (shape : List Nat) (data : List K) (model : Option (List K))
    (outmask inmask : Option (List Bool)) (s : List K) (gs : PyArg)
    (hc : maxrejChecks g shape = .ok ([], gs)) :
    djsRejectMaxrej sqrt body o g shape data model outmask inmask s =
      djsRejectFull sqrt o G shape data model outmask inmask s :=
  maxrej_ignored_when_skipped sqrt body o g G shape data model outmask inmask s ([], gs) hc
    (fun bad => maxrejBlock_nogroupdim body shape bad)

/-- **data with two or more dimensions and a non-empty `groupdim`: the call always raises** (a check in front, or
Python's `max` / `range` on the N-D `dimnum`) -/
theorem maxrej_nd_groupdim_raises (sqrt : K → K) (body : Nat → List Nat → Nat → List K → Except String (List K))
    (o : Opts K) (g : MaxrejOpts) (shape : List Nat) (data mdl : List K)
    (outmask inmask : Option (List Bool)) (s : List K) (gg : List Int × PyArg)
    (hc : maxrejChecks g shape = .ok gg) (hgd : gg.1 ≠ []) (hs : 2 ≤ shape.length) :
    ∃ e, djsRejectMaxrej sqrt body o g shape data (some mdl) outmask inmask s = .error e := by
  cases h : djsRejectMaxrej sqrt body o g shape data (some mdl) outmask inmask s with
  | error e => exact ⟨e, rfl⟩
  | ok r =>
    exfalso
    rcases outmask with _ | om <;> rcases inmask with _ | im <;>
      simp only [djsRejectMaxrej, bind, Except.bind, pure, Except.pure, throw, throwThe,
        MonadExceptOf.throw, hc] at h <;>
      (try split_ifs at h)
    all_goals
      split at h
      · cases h
      · rename_i b hb
        obtain ⟨e, he⟩ := maxrejBlock_nd_raises body gg.1 shape hs hgd _
        rw [he] at hb
        cases hb

/-- the option checks of lines 286-296: scalar `maxrej` alone passes (`groupsize = len(data)`); scalar `maxrej` with
`groupdim` or `groupsize` → TypeError (`len()`); scalar `groupdim` → TypeError; lengths that differ → ValueError; equal
lengths pass -/
theorem maxrej_checks_clauses (shape : List Nat) (b : Bool) :
    (∀ v n rest, shape = n :: rest → maxrejChecks ⟨.scalar v, none, none, b⟩ shape = .ok ([], .scalar n)) ∧
    (∀ v d gs, maxrejChecks ⟨.scalar v, some d, gs, b⟩ shape = .error "TypeError") ∧
    (∀ v sz, maxrejChecks ⟨.scalar v, none, some sz, b⟩ shape = .error "TypeError") ∧
    (∀ mr v gs, maxrejChecks ⟨.seq mr, some (.scalar v), gs, b⟩ shape = .error "TypeError") ∧
    (∀ mr gd gs, mr.length ≠ gd.length → maxrejChecks ⟨.seq mr, some (.seq gd), gs, b⟩ shape = .error "ValueError") ∧
    (∀ mr gd n rest, shape = n :: rest → mr.length = gd.length →
        maxrejChecks ⟨.seq mr, some (.seq gd), none, b⟩ shape = .ok (gd, .scalar n)) ∧
    (∀ mr gd sz, mr.length = gd.length → mr.length = sz.length →
        maxrejChecks ⟨.seq mr, some (.seq gd), some (.seq sz), b⟩ shape = .ok (gd, .seq sz)) ∧
    (∀ mr sz, mr.length = sz.length → maxrejChecks ⟨.seq mr, none, some (.seq sz), b⟩ shape = .ok ([], .seq sz)) ∧
    (∀ mr sz, mr.length ≠ sz.length → maxrejChecks ⟨.seq mr, none, some (.seq sz), b⟩ shape = .error "ValueError") := by
  refine ⟨?_, ?_, ?_, ?_, ?_, ?_, ?_, ?_, ?_⟩
  · rintro v n rest rfl; rfl
  · intro v d gs; rfl
  · intro v sz; rfl
  · intro mr v gs; rfl
  · intro mr gd gs h
    simp [maxrejChecks, pyLen, bind, Except.bind, pure, Except.pure, throw, throwThe, MonadExceptOf.throw, h]
  · rintro mr gd n rest rfl h
    simp [maxrejChecks, pyLen, bind, Except.bind, pure, Except.pure, h]
  · intro mr gd sz h1 h2
    simp [maxrejChecks, pyLen, bind, Except.bind, pure, Except.pure, h1, ← h2]
  · intro mr sz h
    simp [maxrejChecks, pyLen, bind, Except.bind, pure, Except.pure, h]
  · intro mr sz h
    simp [maxrejChecks, pyLen, bind, Except.bind, pure, Except.pure, throw, throwThe, MonadExceptOf.throw, h]

/-- `groupbadpix`: the group starts `(-1*np.diff(np.insert(badness == 0, 0, 1)) == 1).nonzero()` are empty for every
working array (numpy's `diff` of booleans is `!=`, `-1*bool` is never `1`): even if the body ran, no run of bad pixels
would ever form a group -/
theorem groupbadpix_no_groups (bad : List K) : groupsLower bad = [] := groupsLower_nil bad

end maxrej

/-! ## skymask on whole images (third extension round) -/
section sky2
variable {K : Type} [Field K] [LinearOrder K] [IsStrictOrderedRing K] [FloorRing K]
attribute [local instance] fieldScalar
attribute [-instance] Scalar.instOfNat Scalar.instOfScientific

theorem skymaskRow_length (invvar : List K) (ormask : Option (List Int)) (g : Nat)
    (hlen : ∀ om, ormask = some om → om.length = invvar.length) :
    (skymaskRow invvar ormask g).length = invvar.length := by
  apply Nat.le_antisymm
  · unfold skymaskRow
    rw [List.length_zipWith]
    exact Nat.min_le_left _ _
  · by_contra hlt
    have hi : (skymaskRow invvar ormask g).length < invvar.length := by omega
    obtain ⟨h1, h0⟩ := skymask_dilate invvar ormask g hlen _ hi
    by_cases hf : ∃ j, (skymaskRow invvar ormask g).length ≤ j + g ∧ j ≤ (skymaskRow invvar ormask g).length + g ∧ FlaggedAt ormask j
    · have := h1 hf
      rw [List.getElem?_eq_none (Nat.le_refl _)] at this
      cases this
    · have := h0 hf
      rw [List.getElem?_eq_none (Nat.le_refl _)] at this
      cases this

/-- **skymask on the whole image**: a 2-D `invvar` (rows `invvar[r]`, `ormask` of the same shape or `None`) is accepted, the
result has the same rows, and in EVERY row `r`, for EVERY `ngrow` (zero and negative values mean no dilation), pixel `i`
becomes 0 exactly when a pixel `j` of the SAME row with `|i-j| ≤ ngrow` has BADSKYCHI or REDMONSTER set, and keeps its
inverse variance otherwise - rows do not leak into each other.  An array that is not 2-D is refused (ValueError). -/
theorem skymask_image (shape : List Nat) (invvar : List (List K)) (ormask : Option (List (List Int))) (ngrow : Int) :
    (shape.length ≠ 2 → skymaskImage shape invvar ormask ngrow = .error "ValueError") ∧
    (shape.length = 2 →
      (∀ oms, ormask = some oms → oms.length = invvar.length ∧
        ∀ r (hr : r < invvar.length) (hr' : r < oms.length), oms[r].length = invvar[r].length) →
      ∃ out, skymaskImage shape invvar ormask ngrow = .ok out ∧ out.length = invvar.length ∧
        ∀ r (hr : r < invvar.length), ∃ row, out[r]? = some row ∧ row.length = invvar[r].length ∧
          ∀ i (hi : i < invvar[r].length),
            ((∃ j, i ≤ j + ngrow.toNat ∧ j ≤ i + ngrow.toNat ∧ FlaggedAt (ormask.map (fun oms => oms.getD r [])) j) →
              row[i]? = some 0) ∧
            ((¬ ∃ j, i ≤ j + ngrow.toNat ∧ j ≤ i + ngrow.toNat ∧ FlaggedAt (ormask.map (fun oms => oms.getD r [])) j) →
              row[i]? = some invvar[r][i])) := by
  constructor
  · intro h
    simp [skymaskImage, h, throw, throwThe, MonadExceptOf.throw]
  · intro h hlen
    refine ⟨skymaskRows invvar ormask ngrow, by simp [skymaskImage, h, pure, Except.pure], ?_, ?_⟩
    · cases ormask with
      | none => simp [skymaskRows]
      | some oms => simp [skymaskRows, List.length_zipWith, (hlen oms rfl).1]
    · intro r hr
      cases ormask with
      | none =>
        refine ⟨skymaskRow invvar[r] none ngrow.toNat, by simp [skymaskRows, List.getElem?_eq_getElem hr], ?_, ?_⟩
        · exact skymaskRow_length _ _ _ (fun om h => by cases h)
        · intro i hi
          exact skymask_dilate invvar[r] none ngrow.toNat (fun om h => by cases h) i hi
      | some oms =>
        obtain ⟨h1, h2⟩ := hlen oms rfl
        have hr' : r < oms.length := by omega
        refine ⟨skymaskRow invvar[r] (some oms[r]) ngrow.toNat, ?_, ?_, ?_⟩
        · simp [skymaskRows, List.getElem?_zipWith, List.getElem?_eq_getElem hr, List.getElem?_eq_getElem hr']
        · exact skymaskRow_length _ _ _ (fun om h => by cases h; exact h2 r hr hr')
        · intro i hi
          have := skymask_dilate invvar[r] (some oms[r]) ngrow.toNat
            (fun om h => by cases h; exact h2 r hr hr') i hi
          simpa [List.getD_eq_getElem?_getD, List.getElem?_eq_getElem hr'] using this
end sky2

end PydlVerif.C17

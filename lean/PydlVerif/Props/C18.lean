/-
C18 property theorems: great-circle distance (gcirc), the SDSS (mu, nu) rotation,
stripe inclination, angles <-> unit vectors.  The model (Model/Geom.lean) is read
over ℝ with Mathlib's sin, cos, arcsin, arccos, sqrt and arg (`realTrig`); the
rotation lemmas hold over every commutative ring.
Helper lemmas first; the property theorems (listed in harness/props/c18.py) follow,
each group closed by non-vacuity examples.
-/
import PydlVerif.Model.Geom
import PydlVerif.Lemmas.RealTrig
import Mathlib.Tactic.LinearCombination
import Mathlib.Tactic.NormNum
import Mathlib.Tactic.Positivity
import Mathlib.Tactic.FieldSimp
import Mathlib.Tactic.Linarith

namespace PydlVerif.C18
open PydlVerif PydlVerif.Geom

/-! ## the rotation, over any commutative ring -/
section ring
variable {R : Type} [CommRing R]

/-- munu_to_radec's rotation undoes radec_to_munu's rotation exactly -/
theorem rot_inverse (c s : R) (h : c * c + s * s = 1) (v : V3 R) : rotInv c s (rotFwd c s v) = v := by
  obtain ⟨x, y, z⟩ := v
  simp only [rotFwd, rotInv, Prod.mk.injEq, true_and]
  constructor
  · linear_combination y * h
  · linear_combination z * h

/-- and the other way round -/
theorem rot_inverse_rev (c s : R) (h : c * c + s * s = 1) (v : V3 R) : rotFwd c s (rotInv c s v) = v := by
  obtain ⟨x, y, z⟩ := v
  simp only [rotFwd, rotInv, Prod.mk.injEq, true_and]
  constructor
  · linear_combination y * h
  · linear_combination z * h

/-- the rotation preserves dot products (hence lengths and angular separations) -/
theorem rot_isometry (c s : R) (h : c * c + s * s = 1) (u v : V3 R) :
    dot (rotFwd c s u) (rotFwd c s v) = dot u v := by
  obtain ⟨x, y, z⟩ := u
  obtain ⟨x', y', z'⟩ := v
  simp only [rotFwd, dot]
  linear_combination (y * y' + z * z') * h

theorem rotInv_isometry (c s : R) (h : c * c + s * s = 1) (u v : V3 R) :
    dot (rotInv c s u) (rotInv c s v) = dot u v := by
  obtain ⟨x, y, z⟩ := u
  obtain ⟨x', y', z'⟩ := v
  simp only [rotInv, dot]
  linear_combination (y * y' + z * z') * h

example : rotFwd (0 : ℤ) 1 (1, 2, 3) = (1, 3, -2) := by decide
example : rotInv (0 : ℤ) 1 (rotFwd 0 1 (1, 2, 3)) = (1, 2, 3) := by decide
end ring

/-! ## the model over ℝ -/
section real
open Real

/- The model functions at the real interpretation.  (`realTrig` is NOT made a local instance:
   numerals in the statements below must be ordinary real numerals.) -/
local notation "deg2rad" => @Geom.deg2rad ℝ realTrig
local notation "rad2deg" => @Geom.rad2deg ℝ realTrig
local notation "hav" => @Geom.hav ℝ realTrig
local notation "gcircRad" => @Geom.gcircRad ℝ realTrig
local notation "gcirc" => @Geom.gcirc ℝ realTrig
local notation "unitVec" => @Geom.unitVec ℝ realTrig
local notation "munuVec" => @Geom.munuVec ℝ realTrig
local notation "stripeToEta" => @Geom.stripeToEta ℝ realTrig
local notation "stripeToIncl" => @Geom.stripeToIncl ℝ realTrig
local notation "wrap360" => @Geom.wrap360 ℝ realTrig
local notation "clip1" => @Geom.clip1 ℝ realTrig
local notation "vecLon" => @Geom.vecLon ℝ realTrig
local notation "vecLat" => @Geom.vecLat ℝ realTrig
local notation "radecToVec2" => @Geom.radecToVec2 ℝ realTrig
local notation "munuToVec1" => @Geom.munuToVec1 ℝ realTrig
local notation "radecToMunuNI" => @Geom.radecToMunuNI ℝ realTrig
local notation "munuToRadecNI" => @Geom.munuToRadecNI ℝ realTrig
local notation "radecToMunu" => @Geom.radecToMunu ℝ realTrig
local notation "munuToRadec" => @Geom.munuToRadec ℝ realTrig
local notation "anglesToX" => @Geom.anglesToX ℝ realTrig
local notation "xToAngles" => @Geom.xToAngles ℝ realTrig

/-! ### unfolding lemmas (all by `rfl`: the model at `realTrig` IS the Mathlib expression) -/

theorem deg2rad_eq (x : ℝ) : deg2rad x = x * (π / 180) := rfl
theorem rad2deg_eq (x : ℝ) : rad2deg x = x * (180 / π) := rfl
theorem hav_eq (a b c d : ℝ) : hav a b c d =
    sin ((d - b) / 2) * sin ((d - b) / 2) + cos b * cos d * sin ((c - a) / 2) * sin ((c - a) / 2) := rfl
theorem gcircRad_eq (a b c d : ℝ) : gcircRad a b c d = 2 * arcsin (√(hav a b c d)) := rfl
theorem unitVec_eq (l b : ℝ) : unitVec l b = (cos b * cos l, cos b * sin l, sin b) := rfl
theorem munuVec_eq (m n : ℝ) : munuVec m n = (cos m * cos n, sin m * cos n, sin n) := rfl

theorem deg2rad_rad2deg (x : ℝ) : deg2rad (rad2deg x) = x := by
  rw [deg2rad_eq, rad2deg_eq]; field_simp
theorem rad2deg_deg2rad (x : ℝ) : rad2deg (deg2rad x) = x := by
  rw [deg2rad_eq, rad2deg_eq]; field_simp

/-- the haversine term through cosines of the coordinate differences -/
theorem hav_cos (a b c d : ℝ) :
    hav a b c d = (1 - cos (d - b)) / 2 + cos b * cos d * ((1 - cos (c - a)) / 2) := by
  have h1 := sin_sq_eq_half_sub ((d - b) / 2)
  have h2 := sin_sq_eq_half_sub ((c - a) / 2)
  rw [show 2 * ((d - b) / 2) = d - b by ring] at h1
  rw [show 2 * ((c - a) / 2) = c - a by ring] at h2
  rw [hav_eq]
  linear_combination h1 + cos b * cos d * h2

/-- `dot u v = 1 - 2 hav` for the unit vectors of the two points -/
theorem dot_unitVec (a b c d : ℝ) : dot (unitVec a b) (unitVec c d) = 1 - 2 * hav a b c d := by
  rw [hav_cos, cos_sub, cos_sub]
  simp only [unitVec_eq, dot]
  ring

theorem hav_nonneg (a b c d : ℝ) : 0 ≤ hav a b c d := by
  have h := dot_unitVec a b c d
  simp only [unitVec_eq, dot] at h
  have : 4 * hav a b c d = (cos b * cos a - cos d * cos c) ^ 2 + (cos b * sin a - cos d * sin c) ^ 2 + (sin b - sin d) ^ 2 := by
    linear_combination (2) * h - (cos b) ^ 2 * (sin_sq_add_cos_sq a) - (cos d) ^ 2 * (sin_sq_add_cos_sq c)
      - sin_sq_add_cos_sq b - sin_sq_add_cos_sq d
  nlinarith [sq_nonneg (cos b * cos a - cos d * cos c), sq_nonneg (cos b * sin a - cos d * sin c), sq_nonneg (sin b - sin d)]

theorem hav_le_one (a b c d : ℝ) : hav a b c d ≤ 1 := by
  have h := dot_unitVec a b c d
  simp only [unitVec_eq, dot] at h
  have : 4 * (1 - hav a b c d) = (cos b * cos a + cos d * cos c) ^ 2 + (cos b * sin a + cos d * sin c) ^ 2 + (sin b + sin d) ^ 2 := by
    linear_combination (-2) * h - (cos b) ^ 2 * (sin_sq_add_cos_sq a) - (cos d) ^ 2 * (sin_sq_add_cos_sq c)
      - sin_sq_add_cos_sq b - sin_sq_add_cos_sq d
  nlinarith [sq_nonneg (cos b * cos a + cos d * cos c), sq_nonneg (cos b * sin a + cos d * sin c), sq_nonneg (sin b + sin d)]

theorem hav_symm (a b c d : ℝ) : hav a b c d = hav c d a b := by
  rw [hav_cos, hav_cos, ← cos_neg (d - b), ← cos_neg (c - a), neg_sub, neg_sub]; ring

/-! ### gcirc: property theorems -/

theorem gcircRad_symm (a b c d : ℝ) : gcircRad a b c d = gcircRad c d a b := by
  rw [gcircRad_eq, gcircRad_eq, hav_symm]

/-- gcirc is symmetric in its two points, in every unit convention (and refuses the same `units`) -/
theorem gcirc_symm (units : Int) (ra1 dec1 ra2 dec2 : ℝ) :
    gcirc units ra1 dec1 ra2 dec2 = gcirc units ra2 dec2 ra1 dec1 := by
  unfold Geom.gcirc
  split_ifs
  · rw [gcircRad_symm]
  · rw [gcircRad_symm]
  · rw [gcircRad_symm]
  · rfl

theorem gcircRad_self (a b : ℝ) : gcircRad a b a b = 0 := by
  have : hav a b a b = 0 := by rw [hav_cos, sub_self, sub_self, cos_zero]; ring
  rw [gcircRad_eq, this, sqrt_zero, arcsin_zero, mul_zero]

/-- the distance of a point from itself is exactly 0, in the three conventions -/
theorem gcirc_self (units : Int) (hu : units = 0 ∨ units = 1 ∨ units = 2) (ra dec : ℝ) :
    gcirc units ra dec ra dec = .ok 0 := by
  have hz : rad2deg 0 * 3600 = 0 := by rw [rad2deg_eq]; ring
  rcases hu with h | h | h <;> subst h
  · show Except.ok (gcircRad ra dec ra dec) = Except.ok 0
    rw [gcircRad_self]
  · show Except.ok (rad2deg (gcircRad _ _ _ _) * 3600) = Except.ok 0
    rw [gcircRad_self, hz]
  · show Except.ok (rad2deg (gcircRad _ _ _ _) * 3600) = Except.ok 0
    rw [gcircRad_self, hz]

theorem gcircRad_range (a b c d : ℝ) : 0 ≤ gcircRad a b c d ∧ gcircRad a b c d ≤ π := by
  rw [gcircRad_eq]
  constructor
  · have := arcsin_nonneg.2 (sqrt_nonneg (hav a b c d)); linarith
  · have := arcsin_le_pi_div_two (√(hav a b c d)); linarith

theorem rad2deg_range {g : ℝ} (h0 : 0 ≤ g) (h1 : g ≤ π) : 0 ≤ rad2deg g * 3600 ∧ rad2deg g * 3600 ≤ 648000 := by
  rw [rad2deg_eq]
  have hp := pi_pos
  have h2 : g * (180 / π) ≤ 180 := by
    rw [← mul_div_assoc, div_le_iff₀ hp]; nlinarith
  have h3 : 0 ≤ g * (180 / π) := by positivity
  constructor <;> nlinarith

/-- whatever the inputs, the distance lies in [0, π] (radians) resp. [0, 648000 arcsec = 180°] -/
theorem gcirc_range (units : Int) (ra1 dec1 ra2 dec2 g : ℝ) (h : gcirc units ra1 dec1 ra2 dec2 = .ok g) :
    0 ≤ g ∧ g ≤ (if units = 0 then π else 648000) := by
  unfold Geom.gcirc at h
  split_ifs at h with h0 h1 h2
  · have hu : units = 0 := by simpa using h0
    simp only [pure, Except.pure, Except.ok.injEq] at h
    subst h; rw [if_pos hu]; exact gcircRad_range _ _ _ _
  · have hu : ¬ units = 0 := by simpa using h0
    simp only [pure, Except.pure, Except.ok.injEq] at h
    subst h; rw [if_neg hu]
    exact rad2deg_range (gcircRad_range _ _ _ _).1 (gcircRad_range _ _ _ _).2
  · have hu : ¬ units = 0 := by simpa using h0
    simp only [pure, Except.pure, Except.ok.injEq] at h
    subst h; rw [if_neg hu]
    exact rad2deg_range (gcircRad_range _ _ _ _).1 (gcircRad_range _ _ _ _).2

/-- the three unit conventions give the same angle: hours (RA) / degrees and degrees / degrees are the
    radian result `g` of the converted coordinates, expressed in arcsec; converting back returns `g` -/
theorem gcirc_units (h1 d1 h2 d2 : ℝ) :
    ∃ g, gcirc 0 (deg2rad (15 * h1)) (deg2rad d1) (deg2rad (15 * h2)) (deg2rad d2) = .ok g ∧
      gcirc 1 h1 d1 h2 d2 = .ok (rad2deg g * 3600) ∧
      gcirc 2 (15 * h1) d1 (15 * h2) d2 = .ok (rad2deg g * 3600) ∧
      deg2rad (rad2deg g * 3600 / 3600) = g := by
  refine ⟨_, rfl, rfl, rfl, ?_⟩
  rw [mul_div_assoc, div_self (by norm_num), mul_one, deg2rad_rad2deg]

/-- haversine = chord: four times the term under the square root is the squared Euclidean distance of
    the two unit vectors -/
theorem haversine_chord (ra1 dec1 ra2 dec2 : ℝ) :
    4 * hav ra1 dec1 ra2 dec2 =
      ((unitVec ra1 dec1).1 - (unitVec ra2 dec2).1) ^ 2 + ((unitVec ra1 dec1).2.1 - (unitVec ra2 dec2).2.1) ^ 2 +
        ((unitVec ra1 dec1).2.2 - (unitVec ra2 dec2).2.2) ^ 2 := by
  have h := dot_unitVec ra1 dec1 ra2 dec2
  simp only [unitVec_eq, Geom.dot] at h ⊢
  linear_combination (2) * h - (cos dec1) ^ 2 * (sin_sq_add_cos_sq ra1) - (cos dec2) ^ 2 * (sin_sq_add_cos_sq ra2)
    - sin_sq_add_cos_sq dec1 - sin_sq_add_cos_sq dec2

/-- hence gcirc is the independent vector formula `2 arcsin(|u - v| / 2)` -/
theorem gcirc_vector (ra1 dec1 ra2 dec2 : ℝ) :
    gcircRad ra1 dec1 ra2 dec2 =
      2 * arcsin (√(((unitVec ra1 dec1).1 - (unitVec ra2 dec2).1) ^ 2 + ((unitVec ra1 dec1).2.1 - (unitVec ra2 dec2).2.1) ^ 2 +
        ((unitVec ra1 dec1).2.2 - (unitVec ra2 dec2).2.2) ^ 2) / 2) := by
  rw [← haversine_chord, gcircRad_eq]
  congr 2
  rw [show (4 : ℝ) * hav ra1 dec1 ra2 dec2 = 2 ^ 2 * hav ra1 dec1 ra2 dec2 by norm_num,
    sqrt_mul (by positivity), sqrt_sq (by norm_num)]
  ring

/-- and the angle between the two unit vectors: `arccos (u · v)` -/
theorem gcirc_arccos_dot (ra1 dec1 ra2 dec2 : ℝ) :
    gcircRad ra1 dec1 ra2 dec2 = arccos (Geom.dot (unitVec ra1 dec1) (unitVec ra2 dec2)) := by
  have h0 := hav_nonneg ra1 dec1 ra2 dec2
  have h1 := hav_le_one ra1 dec1 ra2 dec2
  have hr := gcircRad_range ra1 dec1 ra2 dec2
  rw [dot_unitVec]
  have hs : sin (arcsin (√(hav ra1 dec1 ra2 dec2))) = √(hav ra1 dec1 ra2 dec2) :=
    sin_arcsin (by have := sqrt_nonneg (hav ra1 dec1 ra2 dec2); linarith) (sqrt_le_one.2 h1)
  have hc : cos (gcircRad ra1 dec1 ra2 dec2) = 1 - 2 * hav ra1 dec1 ra2 dec2 := by
    rw [gcircRad_eq, cos_two_mul, cos_sq', hs, sq_sqrt h0]; ring
  rw [← hc, arccos_cos hr.1 hr.2]

example : ∃ g, gcirc 2 10 20 30 40 = .ok g := ⟨_, rfl⟩
example : gcirc 3 10 20 30 40 = .error "ValueError" := rfl

/-! ### helpers for the frame transforms -/

theorem clip1_cases (z : ℝ) : (z < -1 ∧ clip1 z = -1) ∨ (¬ z < -1 ∧ 1 < z ∧ clip1 z = 1) ∨
    (¬ z < -1 ∧ ¬ 1 < z ∧ clip1 z = z) := by
  unfold Geom.clip1
  dsimp only
  simp only [scalar_lit]
  simp only [Nat.cast_one]
  split_ifs with h1 h2 h3
  · exact absurd (h2 : (1 : ℝ) < -1) (by linarith)
  · exact Or.inl ⟨h1, rfl⟩
  · exact Or.inr (Or.inl ⟨h1, h3, rfl⟩)
  · exact Or.inr (Or.inr ⟨h1, h3, rfl⟩)

theorem wrap360_cases (t : ℝ) : (t < 0 ∧ wrap360 t = t + 360) ∨ (¬ t < 0 ∧ 360 ≤ t ∧ wrap360 t = t - 360) ∨
    (¬ t < 0 ∧ ¬ 360 ≤ t ∧ wrap360 t = t) := by
  unfold Geom.wrap360
  simp only [scalar_lit]
  simp only [Nat.cast_zero, Nat.cast_ofNat]
  split_ifs with h1 h2
  · exact Or.inl ⟨h1, rfl⟩
  · exact Or.inr (Or.inl ⟨h1, h2, rfl⟩)
  · exact Or.inr (Or.inr ⟨h1, h2, rfl⟩)

/-- the clip added by the fix does not change the real-number result (Mathlib's arcsin is already clamped) -/
theorem arcsin_clip1 (z : ℝ) : arcsin (clip1 z) = arcsin z := by
  rcases clip1_cases z with ⟨h1, e⟩ | ⟨_, h2, e⟩ | ⟨_, _, e⟩
  · rw [e, arcsin_of_le_neg_one h1.le, arcsin_neg_one]
  · rw [e, arcsin_one, arcsin_of_one_le h2.le]
  · rw [e]

theorem wrap360_mod (t : ℝ) : ∃ k : ℤ, wrap360 t = t + 360 * k := by
  rcases wrap360_cases t with ⟨_, e⟩ | ⟨_, _, e⟩ | ⟨_, _, e⟩
  · exact ⟨1, by rw [e, Int.cast_one]; ring⟩
  · exact ⟨-1, by rw [e, Int.cast_neg, Int.cast_one]; ring⟩
  · exact ⟨0, by rw [e, Int.cast_zero]; ring⟩

theorem wrap360_range (t : ℝ) (h0 : -360 ≤ t) (h1 : t < 720) : 0 ≤ wrap360 t ∧ wrap360 t < 360 := by
  rcases wrap360_cases t with ⟨h, e⟩ | ⟨h, h', e⟩ | ⟨h, h', e⟩ <;> rw [e] <;> constructor <;> linarith

/-- longitude `arg (x + iy)` and latitude `arcsin z` of a unit vector give the vector back -/
theorem lonlat_vec (x y z : ℝ) (h : x ^ 2 + y ^ 2 + z ^ 2 = 1) :
    cos (Complex.arg ⟨x, y⟩) * cos (arcsin z) = x ∧ sin (Complex.arg ⟨x, y⟩) * cos (arcsin z) = y ∧
      sin (arcsin z) = z := by
  have hz1 : z ≤ 1 := by nlinarith [sq_nonneg x, sq_nonneg y]
  have hz0 : -1 ≤ z := by nlinarith [sq_nonneg x, sq_nonneg y]
  have hn : ‖(⟨x, y⟩ : ℂ)‖ = √(1 - z ^ 2) := by
    rw [Complex.norm_def, Complex.normSq_mk]; congr 1; linarith
  refine ⟨?_, ?_, sin_arcsin hz0 hz1⟩
  · rw [cos_arcsin, ← hn]
    by_cases hw : (⟨x, y⟩ : ℂ) = 0
    · have hx : x = 0 := congrArg Complex.re hw
      rw [hw, norm_zero, mul_zero, hx]
    · rw [Complex.cos_arg hw, div_mul_cancel₀ _ (norm_ne_zero_iff.2 hw)]
  · rw [cos_arcsin, ← hn]
    by_cases hw : (⟨x, y⟩ : ℂ) = 0
    · have hy : y = 0 := congrArg Complex.im hw
      rw [hw, norm_zero, mul_zero, hy]
    · rw [Complex.sin_arg, div_mul_cancel₀ _ (norm_ne_zero_iff.2 hw)]

/-- `arg` of a point given in polar form, for every angle: the angle modulo 2π -/
theorem arg_polar (r a : ℝ) (hr : 0 < r) : ∃ k : ℤ, Complex.arg ⟨r * cos a, r * sin a⟩ = a + k * (2 * π) := by
  have h := Complex.arg_mul_cos_add_sin_mul_I_sub hr a
  have e : (⟨r * cos a, r * sin a⟩ : ℂ) = (r : ℂ) * (Complex.cos a + Complex.sin a * Complex.I) := by
    apply Complex.ext
    · simp only [Complex.mul_re, Complex.ofReal_re, Complex.add_re, Complex.ofReal_im, Complex.add_im,
        Complex.mul_im, Complex.I_re, Complex.I_im, ← Complex.ofReal_cos, ← Complex.ofReal_sin]
      ring
    · simp only [Complex.mul_re, Complex.ofReal_re, Complex.add_re, Complex.ofReal_im, Complex.add_im,
        Complex.mul_im, Complex.I_re, Complex.I_im, ← Complex.ofReal_cos, ← Complex.ofReal_sin]
      ring
  rw [e]
  exact ⟨⌊(π - a) / (2 * π)⌋, by linarith⟩

theorem unitVec_norm (l b : ℝ) :
    (unitVec l b).1 ^ 2 + (unitVec l b).2.1 ^ 2 + (unitVec l b).2.2 ^ 2 = 1 := by
  simp only [unitVec_eq]
  linear_combination (cos b) ^ 2 * (sin_sq_add_cos_sq l) + sin_sq_add_cos_sq b

theorem munuVec_norm (m n : ℝ) :
    (munuVec m n).1 ^ 2 + (munuVec m n).2.1 ^ 2 + (munuVec m n).2.2 ^ 2 = 1 := by
  simp only [munuVec_eq]
  linear_combination (cos n) ^ 2 * (sin_sq_add_cos_sq m) + sin_sq_add_cos_sq n

theorem cs_one (i : ℝ) : cos i * cos i + sin i * sin i = 1 := by
  linear_combination sin_sq_add_cos_sq i

theorem rotFwd_norm (i : ℝ) (v : V3 ℝ) (h : v.1 ^ 2 + v.2.1 ^ 2 + v.2.2 ^ 2 = 1) :
    (rotFwd (cos i) (sin i) v).1 ^ 2 + (rotFwd (cos i) (sin i) v).2.1 ^ 2 + (rotFwd (cos i) (sin i) v).2.2 ^ 2 = 1 := by
  have := rot_isometry (cos i) (sin i) (cs_one i) v v
  simp only [Geom.dot] at this
  nlinarith [this]

theorem rotInv_norm (i : ℝ) (v : V3 ℝ) (h : v.1 ^ 2 + v.2.1 ^ 2 + v.2.2 ^ 2 = 1) :
    (rotInv (cos i) (sin i) v).1 ^ 2 + (rotInv (cos i) (sin i) v).2.1 ^ 2 + (rotInv (cos i) (sin i) v).2.2 ^ 2 = 1 := by
  have := rotInv_isometry (cos i) (sin i) (cs_one i) v v
  simp only [Geom.dot] at this
  nlinarith [this]

/-- degrees out, degrees in: what the next transform recomputes from a returned (longitude, latitude)
    are the sine and cosine of the original radian angles (the wrap and the node drop out) -/
theorem deg_lon_back (N L : ℝ) :
    ∃ k : ℤ, deg2rad (wrap360 (rad2deg L + N) - N) = L + k * (2 * π) := by
  obtain ⟨k, hk⟩ := wrap360_mod (rad2deg L + N)
  refine ⟨k, ?_⟩
  rw [hk, deg2rad_eq, rad2deg_eq]
  have := pi_ne_zero
  field_simp
  ring

theorem munuVec_of_deg (N L ν : ℝ) :
    munuVec (deg2rad (wrap360 (rad2deg L + N) - N)) (deg2rad (rad2deg ν)) = munuVec L ν := by
  obtain ⟨k, hk⟩ := deg_lon_back N L
  rw [hk, deg2rad_rad2deg, munuVec_eq, munuVec_eq, cos_add_int_mul_two_pi, sin_add_int_mul_two_pi]

theorem unitVec_of_deg (N L ν : ℝ) :
    unitVec (deg2rad (wrap360 (rad2deg L + N) - N)) (deg2rad (rad2deg ν)) = unitVec L ν := by
  obtain ⟨k, hk⟩ := deg_lon_back N L
  rw [hk, deg2rad_rad2deg, unitVec_eq, unitVec_eq, cos_add_int_mul_two_pi, sin_add_int_mul_two_pi]

theorem munuVec_lonlat (v : V3 ℝ) (h : v.1 ^ 2 + v.2.1 ^ 2 + v.2.2 ^ 2 = 1) :
    munuVec (vecLon v) (vecLat v) = v := by
  obtain ⟨x, y, z⟩ := v
  obtain ⟨h1, h2, h3⟩ := lonlat_vec x y z h
  show munuVec (Complex.arg ⟨x, y⟩) (arcsin (clip1 z)) = (x, y, z)
  rw [arcsin_clip1, munuVec_eq, h1, h2, h3]

theorem unitVec_lonlat (v : V3 ℝ) (h : v.1 ^ 2 + v.2.1 ^ 2 + v.2.2 ^ 2 = 1) :
    unitVec (vecLon v) (vecLat v) = v := by
  obtain ⟨x, y, z⟩ := v
  obtain ⟨h1, h2, h3⟩ := lonlat_vec x y z h
  show unitVec (Complex.arg ⟨x, y⟩) (arcsin (clip1 z)) = (x, y, z)
  rw [arcsin_clip1, unitVec_eq, mul_comm (cos (arcsin z)), mul_comm (cos (arcsin z)), h1, h2, h3]

theorem radecToVec2_eq (N I ra dec : ℝ) : radecToVec2 N I ra dec =
    rotFwd (cos (deg2rad I)) (sin (deg2rad I)) (unitVec (deg2rad (ra - N)) (deg2rad dec)) := rfl
theorem munuToVec1_eq (N I mu nu : ℝ) : munuToVec1 N I mu nu =
    rotInv (cos (deg2rad I)) (sin (deg2rad I)) (munuVec (deg2rad (mu - N)) (deg2rad nu)) := rfl
theorem radecToMunuNI_eq (N I ra dec : ℝ) : radecToMunuNI N I ra dec =
    (wrap360 (rad2deg (vecLon (radecToVec2 N I ra dec)) + N), rad2deg (vecLat (radecToVec2 N I ra dec))) := rfl
theorem munuToRadecNI_eq (N I mu nu : ℝ) : munuToRadecNI N I mu nu =
    (wrap360 (rad2deg (vecLon (munuToVec1 N I mu nu)) + N), rad2deg (vecLat (munuToVec1 N I mu nu))) := rfl

/-! ### the (mu, nu) transform: property theorems -/

/-- ICRS → (mu, nu) → ICRS, Cartesian level, ALL inputs (any node, inclination, ra, dec): the vector that
    munu_to_radec builds from the (mu, nu) returned by radec_to_munu is the unit vector of the start -/
theorem radec_munu_vec_roundtrip (N I ra dec : ℝ) :
    munuToVec1 N I (radecToMunuNI N I ra dec).1 (radecToMunuNI N I ra dec).2 =
      unitVec (deg2rad (ra - N)) (deg2rad dec) := by
  rw [radecToMunuNI_eq, munuToVec1_eq, munuVec_of_deg, munuVec_lonlat, radecToVec2_eq,
    rot_inverse _ _ (cs_one _)]
  rw [radecToVec2_eq]
  exact rotFwd_norm _ _ (unitVec_norm _ _)

/-- (mu, nu) → ICRS → (mu, nu), Cartesian level, ALL inputs -/
theorem munu_radec_vec_roundtrip (N I mu nu : ℝ) :
    radecToVec2 N I (munuToRadecNI N I mu nu).1 (munuToRadecNI N I mu nu).2 =
      munuVec (deg2rad (mu - N)) (deg2rad nu) := by
  rw [munuToRadecNI_eq, radecToVec2_eq, unitVec_of_deg, unitVec_lonlat, munuToVec1_eq,
    rot_inverse_rev _ _ (cs_one _)]
  rw [munuToVec1_eq]
  exact rotInv_norm _ _ (munuVec_norm _ _)

/-- ICRS → (mu, nu) → ICRS at the level of angles: the declination comes back exactly on [-90, 90],
    the right ascension modulo 360 away from the poles (where it is not defined) -/
theorem radec_munu_radec (N I ra dec : ℝ) (h0 : -90 ≤ dec) (h1 : dec ≤ 90) :
    (munuToRadecNI N I (radecToMunuNI N I ra dec).1 (radecToMunuNI N I ra dec).2).2 = dec ∧
    (-90 < dec → dec < 90 → ∃ k : ℤ,
      (munuToRadecNI N I (radecToMunuNI N I ra dec).1 (radecToMunuNI N I ra dec).2).1 = ra + 360 * k) := by
  rw [munuToRadecNI_eq, radec_munu_vec_roundtrip]
  have hp := pi_pos
  constructor
  · show rad2deg (arcsin (clip1 (sin (deg2rad dec)))) = dec
    have hδ : -(π / 2) ≤ deg2rad dec ∧ deg2rad dec ≤ π / 2 := by
      rw [deg2rad_eq]; constructor <;> nlinarith
    rw [arcsin_clip1, arcsin_sin hδ.1 hδ.2, rad2deg_deg2rad]
  · intro h0' h1'
    have hc : 0 < cos (deg2rad dec) := by
      apply cos_pos_of_mem_Ioo
      rw [deg2rad_eq]; constructor <;> nlinarith
    obtain ⟨k, hk⟩ := arg_polar (cos (deg2rad dec)) (deg2rad (ra - N)) hc
    have hL : vecLon (unitVec (deg2rad (ra - N)) (deg2rad dec)) = deg2rad (ra - N) + k * (2 * π) := hk
    obtain ⟨k', hk'⟩ := wrap360_mod (rad2deg (vecLon (unitVec (deg2rad (ra - N)) (deg2rad dec))) + N)
    refine ⟨k + k', ?_⟩
    show wrap360 (rad2deg (vecLon (unitVec (deg2rad (ra - N)) (deg2rad dec))) + N) = _
    rw [hk', hL, rad2deg_eq, deg2rad_eq, Int.cast_add]
    have := pi_ne_zero
    field_simp
    ring

/-- (mu, nu) → ICRS → (mu, nu) at the level of angles: nu comes back exactly on [-90, 90], mu modulo 360
    away from the poles of the stripe system -/
theorem munu_radec_munu (N I mu nu : ℝ) (h0 : -90 ≤ nu) (h1 : nu ≤ 90) :
    (radecToMunuNI N I (munuToRadecNI N I mu nu).1 (munuToRadecNI N I mu nu).2).2 = nu ∧
    (-90 < nu → nu < 90 → ∃ k : ℤ,
      (radecToMunuNI N I (munuToRadecNI N I mu nu).1 (munuToRadecNI N I mu nu).2).1 = mu + 360 * k) := by
  rw [radecToMunuNI_eq, munu_radec_vec_roundtrip]
  have hp := pi_pos
  constructor
  · show rad2deg (arcsin (clip1 (sin (deg2rad nu)))) = nu
    have hδ : -(π / 2) ≤ deg2rad nu ∧ deg2rad nu ≤ π / 2 := by
      rw [deg2rad_eq]; constructor <;> nlinarith
    rw [arcsin_clip1, arcsin_sin hδ.1 hδ.2, rad2deg_deg2rad]
  · intro h0' h1'
    have hc : 0 < cos (deg2rad nu) := by
      apply cos_pos_of_mem_Ioo
      rw [deg2rad_eq]; constructor <;> nlinarith
    obtain ⟨k, hk⟩ := arg_polar (cos (deg2rad nu)) (deg2rad (mu - N)) hc
    have hL : vecLon (munuVec (deg2rad (mu - N)) (deg2rad nu)) = deg2rad (mu - N) + k * (2 * π) := by
      rw [← hk]
      show Complex.arg ⟨cos (deg2rad (mu - N)) * cos (deg2rad nu), sin (deg2rad (mu - N)) * cos (deg2rad nu)⟩ = _
      rw [mul_comm (cos (deg2rad (mu - N))), mul_comm (sin (deg2rad (mu - N)))]
    obtain ⟨k', hk'⟩ := wrap360_mod (rad2deg (vecLon (munuVec (deg2rad (mu - N)) (deg2rad nu))) + N)
    refine ⟨k + k', ?_⟩
    show wrap360 (rad2deg (vecLon (munuVec (deg2rad (mu - N)) (deg2rad nu))) + N) = _
    rw [hk', hL, rad2deg_eq, deg2rad_eq, Int.cast_add]
    have := pi_ne_zero
    field_simp
    ring

theorem hav_of_dot (a b c d : ℝ) : hav a b c d = (1 - Geom.dot (unitVec a b) (unitVec c d)) / 2 := by
  rw [dot_unitVec]; ring

theorem dot_unitVec_shift (a b c d t : ℝ) :
    Geom.dot (unitVec (a + t) b) (unitVec (c + t) d) = Geom.dot (unitVec a b) (unitVec c d) := by
  rw [dot_unitVec, dot_unitVec, hav_cos, hav_cos, show c + t - (a + t) = c - a by ring]

theorem deg2rad_split (x N : ℝ) : deg2rad x = deg2rad (x - N) + deg2rad N := by
  simp only [deg2rad_eq]; ring

theorem dot_node_free (N l1 b1 l2 b2 : ℝ) :
    Geom.dot (unitVec (deg2rad l1) b1) (unitVec (deg2rad l2) b2) =
      Geom.dot (unitVec (deg2rad (l1 - N)) b1) (unitVec (deg2rad (l2 - N)) b2) := by
  rw [deg2rad_split l1 N, deg2rad_split l2 N, dot_unitVec_shift]

/-- the transform preserves angular separations: gcirc of the two (mu, nu) points is gcirc of the two
    (ra, dec) points, for every node, inclination and pair of points -/
theorem munu_preserves_sep (N I ra1 dec1 ra2 dec2 : ℝ) :
    gcirc 2 (radecToMunuNI N I ra1 dec1).1 (radecToMunuNI N I ra1 dec1).2
        (radecToMunuNI N I ra2 dec2).1 (radecToMunuNI N I ra2 dec2).2 =
      gcirc 2 ra1 dec1 ra2 dec2 := by
  have key : hav (deg2rad (radecToMunuNI N I ra1 dec1).1) (deg2rad (radecToMunuNI N I ra1 dec1).2)
      (deg2rad (radecToMunuNI N I ra2 dec2).1) (deg2rad (radecToMunuNI N I ra2 dec2).2) =
      hav (deg2rad ra1) (deg2rad dec1) (deg2rad ra2) (deg2rad dec2) := by
    rw [hav_of_dot, hav_of_dot, dot_node_free N, dot_node_free N ra1]
    simp only [radecToMunuNI_eq]
    rw [unitVec_of_deg, unitVec_of_deg, unitVec_lonlat, unitVec_lonlat, radecToVec2_eq, radecToVec2_eq,
      rot_isometry _ _ (cs_one _)]
    · rw [radecToVec2_eq]; exact rotFwd_norm _ _ (unitVec_norm _ _)
    · rw [radecToVec2_eq]; exact rotFwd_norm _ _ (unitVec_norm _ _)
  show Except.ok (rad2deg (gcircRad _ _ _ _) * 3600) = Except.ok (rad2deg (gcircRad _ _ _ _) * 3600)
  rw [gcircRad_eq, gcircRad_eq, key]

/-- nu = 0 traces the great circle of inclination `I` through the node: with longitudes counted from the
    node (x axis = node direction), every point returned for (mu, 0) lies in the plane through the origin
    with normal (0, -sin I, cos I), and it is the point of that circle at arc length mu - node from the node -/
theorem nu_zero_circle (N I mu : ℝ) :
    -(sin (deg2rad I)) * (unitVec (deg2rad ((munuToRadecNI N I mu 0).1 - N)) (deg2rad (munuToRadecNI N I mu 0).2)).2.1 +
      cos (deg2rad I) * (unitVec (deg2rad ((munuToRadecNI N I mu 0).1 - N)) (deg2rad (munuToRadecNI N I mu 0).2)).2.2 = 0 ∧
    unitVec (deg2rad ((munuToRadecNI N I mu 0).1 - N)) (deg2rad (munuToRadecNI N I mu 0).2) =
      (cos (deg2rad (mu - N)), sin (deg2rad (mu - N)) * cos (deg2rad I), sin (deg2rad (mu - N)) * sin (deg2rad I)) := by
  have hv : unitVec (deg2rad ((munuToRadecNI N I mu 0).1 - N)) (deg2rad (munuToRadecNI N I mu 0).2) =
      (cos (deg2rad (mu - N)), sin (deg2rad (mu - N)) * cos (deg2rad I), sin (deg2rad (mu - N)) * sin (deg2rad I)) := by
    rw [munuToRadecNI_eq, unitVec_of_deg, unitVec_lonlat, munuToVec1_eq, munuVec_eq]
    · have z : deg2rad 0 = 0 := by rw [deg2rad_eq, zero_mul]
      rw [z, cos_zero, sin_zero]
      simp only [Geom.rotInv, mul_one, zero_mul, sub_zero, add_zero]
    · rw [munuToVec1_eq]; exact rotInv_norm _ _ (munuVec_norm _ _)
  refine ⟨?_, hv⟩
  rw [hv]
  ring

/-- conversely a point has nu = 0 exactly when it lies in that plane -/
theorem nu_zero_iff (N I ra dec : ℝ) :
    (radecToMunuNI N I ra dec).2 = 0 ↔
      -(sin (deg2rad I)) * (unitVec (deg2rad (ra - N)) (deg2rad dec)).2.1 +
        cos (deg2rad I) * (unitVec (deg2rad (ra - N)) (deg2rad dec)).2.2 = 0 := by
  have hz : (radecToMunuNI N I ra dec).2 =
      rad2deg (arcsin (clip1 (-(unitVec (deg2rad (ra - N)) (deg2rad dec)).2.1 * sin (deg2rad I) +
        (unitVec (deg2rad (ra - N)) (deg2rad dec)).2.2 * cos (deg2rad I)))) := rfl
  rw [hz, arcsin_clip1, rad2deg_eq]
  have hp : (180 / π) ≠ 0 := by have := pi_ne_zero; positivity
  rw [mul_eq_zero, or_iff_left hp, arcsin_eq_zero_iff]
  constructor <;> intro h <;> linarith

/-- the node is a fixed point: (mu, nu) = (node, 0) is (ra, dec) = (node, 0) -/
theorem node_fixed (N I : ℝ) (h0 : 0 ≤ N) (h1 : N < 360) : munuToRadecNI N I N 0 = (N, 0) := by
  have z : deg2rad 0 = 0 := by rw [deg2rad_eq, zero_mul]
  have hv : munuToVec1 N I N 0 = (1, 0, 0) := by
    rw [munuToVec1_eq, munuVec_eq, sub_self, z, cos_zero, sin_zero]
    simp only [Geom.rotInv, mul_one, zero_mul, sub_zero, add_zero, mul_zero]
  have hlon : vecLon ((1, 0, 0) : V3 ℝ) = 0 := by
    show Complex.arg ⟨1, 0⟩ = 0
    have : (⟨1, 0⟩ : ℂ) = ((1 : ℝ) : ℂ) := rfl
    rw [this, Complex.arg_ofReal_of_nonneg zero_le_one]
  have hlat : vecLat ((1, 0, 0) : V3 ℝ) = 0 := by
    show arcsin (clip1 0) = 0
    rw [arcsin_clip1, arcsin_zero]
  have r0 : rad2deg 0 = 0 := by rw [rad2deg_eq, zero_mul]
  rw [munuToRadecNI_eq, hv, hlon, hlat, r0, zero_add]
  rcases wrap360_cases N with ⟨h, _⟩ | ⟨_, h, _⟩ | ⟨_, _, e⟩
  · exact absurd h (not_lt.2 h0)
  · exact absurd h (not_le.2 h1)
  · rw [e]

/-- stripe_to_incl as coded: eta + 32.5, i.e. 2.5 deg per stripe from stripe 10 (north) resp. 82 (south) -/
theorem incl_formula (s : ℝ) :
    stripeToIncl s = stripeToEta s + 32.5 ∧
      stripeToIncl s = (if 46 < s then (s - 82) * 2.5 else (s - 10) * 2.5) := by
  refine ⟨rfl, ?_⟩
  unfold Geom.stripeToIncl Geom.stripeToEta
  dsimp only
  simp only [scalar_lit, scalar_sci]
  simp only [Nat.cast_ofNat]
  split_ifs <;> norm_num [-scalar_lit] <;> ring

example : stripeToIncl 10 = 0 := by rw [(incl_formula 10).2]; norm_num [-scalar_lit]
example : stripeToIncl 82 = 0 := by rw [(incl_formula 82).2]; norm_num [-scalar_lit]
/- non-vacuity: the hypotheses of radec_munu_radec and node_fixed are met by ordinary inputs -/
example : ∃ k : ℤ, (munuToRadecNI 95 50 (radecToMunuNI 95 50 200 30).1 (radecToMunuNI 95 50 200 30).2).1 = 200 + 360 * k :=
  (radec_munu_radec 95 50 200 30 (by norm_num [-scalar_lit]) (by norm_num [-scalar_lit])).2
    (by norm_num [-scalar_lit]) (by norm_num [-scalar_lit])
example : munuToRadecNI 95 50 95 0 = (95, 0) := node_fixed 95 50 (by norm_num [-scalar_lit]) (by norm_num [-scalar_lit])

/-- the frame transforms compared with astropy are the general ones at node 95 and inclination
    stripe_to_incl(stripe): every theorem above applies to them -/
theorem frame_eq (stripe a b : ℝ) :
    radecToMunu stripe a b = radecToMunuNI 95 (stripeToIncl stripe) a b ∧
      munuToRadec stripe a b = munuToRadecNI 95 (stripeToIncl stripe) a b := ⟨rfl, rfl⟩

/-! ### angles <-> unit vectors -/

theorem anglesToX_false (φ θ : ℝ) : anglesToX false φ θ =
    (cos (deg2rad φ) * sin (deg2rad θ), sin (deg2rad φ) * sin (deg2rad θ), cos (deg2rad θ)) := rfl
theorem anglesToX_true (φ θ : ℝ) : anglesToX true φ θ =
    (cos (deg2rad φ) * sin (deg2rad (90 - θ)), sin (deg2rad φ) * sin (deg2rad (90 - θ)), cos (deg2rad (90 - θ))) := rfl
theorem xToAngles_false (x y z : ℝ) : xToAngles false (x, y, z) =
    (rad2deg (Complex.arg ⟨x, y⟩), rad2deg (arccos (z / (x * x + y * y + z * z)))) := rfl
theorem xToAngles_true (x y z : ℝ) : xToAngles true (x, y, z) =
    (rad2deg (Complex.arg ⟨x, y⟩), 90 - rad2deg (arccos (z / (x * x + y * y + z * z)))) := rfl

/-- core of angles → x → angles in radians: polar angle t in (0, π), any longitude p -/
theorem polar_back (p t : ℝ) (h0 : 0 < t) (h1 : t < π) :
    arccos (cos t / ((cos p * sin t) * (cos p * sin t) + (sin p * sin t) * (sin p * sin t) + cos t * cos t)) = t ∧
    ∃ k : ℤ, Complex.arg ⟨cos p * sin t, sin p * sin t⟩ = p + k * (2 * π) := by
  have hr : (cos p * sin t) * (cos p * sin t) + (sin p * sin t) * (sin p * sin t) + cos t * cos t = 1 := by
    linear_combination (sin t) ^ 2 * (sin_sq_add_cos_sq p) + sin_sq_add_cos_sq t
  constructor
  · rw [hr, div_one, arccos_cos h0.le h1.le]
  · have hs : 0 < sin t := sin_pos_of_pos_of_lt_pi h0 h1
    rw [mul_comm (cos p), mul_comm (sin p)]
    exact arg_polar (sin t) p hs

theorem lon_principal (L φ : ℝ) (k : ℤ) (hL : -π < L ∧ L ≤ π) (hφ : -180 < φ ∧ φ ≤ 180)
    (h : rad2deg L = φ + 360 * k) : k = 0 := by
  have hp := pi_pos
  have h2 : -180 < rad2deg L ∧ rad2deg L ≤ 180 := by
    rw [rad2deg_eq, ← mul_div_assoc, lt_div_iff₀ hp, div_le_iff₀ hp]
    constructor <;> nlinarith
  have hk1 : (k : ℝ) < 1 := by nlinarith [h2.2, hφ.1]
  have hk2 : (-1 : ℝ) < k := by nlinarith [h2.1, hφ.2]
  have : k < 1 := by exact_mod_cast hk1
  have : -1 < k := by exact_mod_cast hk2
  omega

/-- angles → x → angles is the identity: the polar angle (resp. latitude) comes back exactly, the
    longitude modulo 360, and exactly when it is given in (-180, 180].
    Domain: polar angle in (0, 180), resp. latitude in (-90, 90) (at the poles the longitude is lost). -/
theorem angles_x_inverse (lat : Bool) (φ θ : ℝ)
    (hθ : if lat then (-90 < θ ∧ θ < 90) else (0 < θ ∧ θ < 180)) :
    (xToAngles lat (anglesToX lat φ θ)).2 = θ ∧
      ∃ k : ℤ, (xToAngles lat (anglesToX lat φ θ)).1 = φ + 360 * k ∧ (-180 < φ → φ ≤ 180 → k = 0) := by
  have hp := pi_pos
  have hpn := pi_ne_zero
  have fin : ∀ (t : ℝ) (k : ℤ), Complex.arg ⟨cos (deg2rad φ) * sin t, sin (deg2rad φ) * sin t⟩ = deg2rad φ + k * (2 * π) →
      rad2deg (Complex.arg ⟨cos (deg2rad φ) * sin t, sin (deg2rad φ) * sin t⟩) = φ + 360 * k ∧ (-180 < φ → φ ≤ 180 → k = 0) := by
    intro t k hk
    have e : rad2deg (Complex.arg ⟨cos (deg2rad φ) * sin t, sin (deg2rad φ) * sin t⟩) = φ + 360 * k := by
      rw [hk, rad2deg_eq, deg2rad_eq]; field_simp; ring
    exact ⟨e, fun a b => lon_principal _ φ k ⟨Complex.neg_pi_lt_arg _, Complex.arg_le_pi _⟩ ⟨a, b⟩ e⟩
  cases lat
  · simp only [Bool.false_eq_true, if_false] at hθ
    have ht : 0 < deg2rad θ ∧ deg2rad θ < π := by
      rw [deg2rad_eq]; constructor <;> nlinarith [hθ.1, hθ.2]
    obtain ⟨ha, k, hk⟩ := polar_back (deg2rad φ) (deg2rad θ) ht.1 ht.2
    rw [anglesToX_false, xToAngles_false]
    refine ⟨?_, k, fin _ k hk⟩
    show rad2deg (arccos _) = θ
    rw [ha, rad2deg_deg2rad]
  · simp only [if_true] at hθ
    have ht : 0 < deg2rad (90 - θ) ∧ deg2rad (90 - θ) < π := by
      rw [deg2rad_eq]; constructor <;> nlinarith [hθ.1, hθ.2]
    obtain ⟨ha, k, hk⟩ := polar_back (deg2rad φ) (deg2rad (90 - θ)) ht.1 ht.2
    rw [anglesToX_true, xToAngles_true]
    refine ⟨?_, k, fin _ k hk⟩
    show 90 - rad2deg (arccos _) = θ
    rw [ha, rad2deg_deg2rad]; ring

/-- x → angles → x is the identity on unit vectors (both conventions) -/
theorem x_angles_inverse (lat : Bool) (v : V3 ℝ) (h : v.1 ^ 2 + v.2.1 ^ 2 + v.2.2 ^ 2 = 1) :
    anglesToX lat (xToAngles lat v).1 (xToAngles lat v).2 = v := by
  obtain ⟨x, y, z⟩ := v
  have h' : x ^ 2 + y ^ 2 + z ^ 2 = 1 := h
  obtain ⟨h1, h2, _⟩ := lonlat_vec x y z h'
  have hz1 : z ≤ 1 := by nlinarith [sq_nonneg x, sq_nonneg y]
  have hz0 : -1 ≤ z := by nlinarith [sq_nonneg x, sq_nonneg y]
  have hr : x * x + y * y + z * z = 1 := by linarith
  rw [cos_arcsin, ← sin_arccos] at h1 h2
  cases lat
  · rw [xToAngles_false, anglesToX_false, hr, div_one, deg2rad_rad2deg, deg2rad_rad2deg, h1, h2,
      cos_arccos hz0 hz1]
  · rw [xToAngles_true, anglesToX_true, hr, div_one, sub_sub_cancel, deg2rad_rad2deg, deg2rad_rad2deg, h1, h2,
      cos_arccos hz0 hz1]

/- non-vacuity -/
example : ∃ k : ℤ, (xToAngles false (anglesToX false 200 30)).1 = 200 + 360 * k :=
  let ⟨k, hk, _⟩ := (angles_x_inverse false 200 30 (by norm_num [-scalar_lit])).2; ⟨k, hk⟩
example : anglesToX true (xToAngles true (0, 0, 1)).1 (xToAngles true (0, 0, 1)).2 = (0, 0, 1) :=
  x_angles_inverse true (0, 0, 1) (by norm_num [-scalar_lit])

end real
end PydlVerif.C18

/-
C19 property theorems: airtovac / vactoair (identity below 2000 Å, vacuum > air, both round
trips, unit invariance, array = map), sdssflux2ab (one offset per band, flux / magnitude / ivar
forms consistent), filter_thru (linear, constant, min/max, no overlap, masked pixels) - over
any linearly ordered field, for all inputs.  Helper lemmas are in Lemmas/Wave.lean.
The theorems audited by the check are listed in harness/props/c19.py.
-/
import PydlVerif.Lemmas.Wave
import Mathlib.Analysis.SpecialFunctions.Log.Basic

set_option linter.unusedSectionVars false

namespace PydlVerif.C19
open PydlVerif PydlVerif.Wave

section
variable {K : Type} [Field K] [LinearOrder K] [IsStrictOrderedRing K] [FloorRing K]
attribute [local instance] fieldScalar
-- numerals of K are the field's own; the Scalar literal instances are only met inside unfolded model terms
attribute [local instance 5] Scalar.instOfNat Scalar.instOfScientific

/-! ## airtovac / vactoair -/

/-- wavelengths below 2000 Å are returned unchanged by both conversions -/
theorem below_2000_identity (a : K) (h : a < 2000) : airtovac1 a = a ∧ vactoair1 a = a := by
  rw [airtovac1_eq, vactoair1_eq, if_pos h, if_pos h]
  exact ⟨rfl, rfl⟩

/-- above the guard: vacuum wavelength > air wavelength, in both directions -/
theorem vac_gt_air (x : K) (h : 2000 ≤ x) : x < airtovac1 x ∧ vactoair1 x < x := by
  have hx0 : 0 < x := by linarith
  have hn : ¬ x < 2000 := not_lt.mpr h
  rw [airtovac1_eq, vactoair1_eq, if_neg hn, if_neg hn]
  have f0 := (fact_bounds h).1
  have h1 : 2000 ≤ x * fact x := by nlinarith
  have f1 := (fact_bounds h1).1
  constructor
  · nlinarith
  · rw [div_lt_iff₀ (by linarith)]; nlinarith

/-- sharp form: `|vactoair(airtovac a) - a| ≤ 109/a³` for `a ≥ 2000` -/
theorem roundtrip_air_sharp (a : K) (h : 2000 ≤ a) :
    |vactoair1 (airtovac1 a) - a| ≤ 109 / (a * a * a) := by
  have ha0 : 0 < a := by linarith
  have hn : ¬ a < 2000 := not_lt.mpr h
  obtain ⟨f0, f0'⟩ := fact_bounds h
  have h1 : a ≤ a * fact a := by nlinarith
  obtain ⟨f1, _⟩ := fact_bounds (le_trans h h1)
  have h2 : a ≤ a * fact (a * fact a) := by nlinarith
  obtain ⟨f2, _⟩ := fact_bounds (le_trans h h2)
  have hn2 : ¬ a * fact (a * fact a) < 2000 := not_lt.mpr (le_trans h h2)
  rw [airtovac1_eq, if_neg hn, vactoair1_eq, if_neg hn2]
  set F1 := fact (a * fact a) with hF1
  set F2 := fact (a * F1) with hF2
  have e : a * F1 / F2 - a = a * (F1 - F2) / F2 := by
    field_simp
  have hpq : |a - a * fact a| ≤ a * (325 / 1000000) := by
    rw [abs_sub_comm, abs_of_nonneg (by linarith)]; nlinarith
  have key := two_steps h le_rfl h1 hpq (by nlinarith [(fact_bounds h).1]) h2
  rw [← hF1, ← hF2] at key
  rw [e, abs_div, abs_mul, abs_of_pos ha0, abs_of_pos (by linarith : 0 < F2)]
  rw [div_le_iff₀ (by linarith)]
  have : 0 ≤ 109 / (a * a * a) := by positivity
  nlinarith

/-- sharp form of the other direction: wherever `vactoair v ≥ 2000`,
`|airtovac(vactoair v) - v| ≤ 109/a³` with `a = vactoair v` -/
theorem roundtrip_vac_sharp (v : K) (h : 2000 ≤ vactoair1 v) :
    |airtovac1 (vactoair1 v) - v| ≤ 109 / (vactoair1 v * vactoair1 v * vactoair1 v) := by
  have hv : 2000 ≤ v := by
    by_contra hc
    have hc' : v < 2000 := not_le.mp hc
    rw [(below_2000_identity v hc').2] at h
    exact hc h
  obtain ⟨fv, fv'⟩ := fact_bounds hv
  have hnv : ¬ v < 2000 := not_lt.mpr hv
  have hdef : vactoair1 v = v / fact v := by rw [vactoair1_eq, if_neg hnv]
  set a := vactoair1 v with ha
  have ha0 : 0 < a := by linarith
  have hva : v = a * fact v := by rw [hdef]; field_simp
  have hn : ¬ a < 2000 := not_lt.mpr h
  obtain ⟨f0, f0'⟩ := fact_bounds h
  have h1 : a ≤ a * fact a := by nlinarith
  have hav : a ≤ v := by rw [hva]; nlinarith
  rw [airtovac1_eq, if_neg hn]
  have hpq : |a - v| ≤ a * (325 / 1000000) := by
    rw [abs_sub_comm, abs_of_nonneg (by linarith)]
    rw [hva]; nlinarith
  have key := two_steps h le_rfl hav hpq h1 (by rw [← hva]; exact hav)
  rw [← hva] at key
  have e : a * fact (a * fact a) - v = a * (fact (a * fact a) - fact v) := by
    rw [mul_sub, ← hva]
  rw [e, abs_mul, abs_of_pos ha0]
  exact key

/-- **round trip**: `vactoair(airtovac a) = a` for every `a ≥ 2000 Å` and
`airtovac(vactoair v) = v` wherever `vactoair v ≥ 2000 Å`, to better than `2·10⁻⁸ Å`
(the property asks for `10⁻⁶ Å`) -/
theorem roundtrip_bound (x : K) :
    (2000 ≤ x → |vactoair1 (airtovac1 x) - x| ≤ 2 / 100000000) ∧
    (2000 ≤ vactoair1 x → |airtovac1 (vactoair1 x) - x| ≤ 2 / 100000000) :=
  ⟨fun h => le_trans (roundtrip_air_sharp x h) (small_const h),
   fun h => le_trans (roundtrip_vac_sharp x h) (small_const h)⟩

/-- the array / numpy-scalar path without unit is the scalar conversion mapped over the elements
(float, numpy scalar, 0-d array and array input give the same numbers) -/
theorem array_is_map (f1 : K → K) (hf : ∀ a, a < 2000 → f1 a = a) (xs : List K) :
    convArr f1 none xs = xs.map f1 := by
  simp only [convArr, val_guard]
  split
  · rename_i hall
    rw [List.all_eq_true] at hall
    symm
    calc xs.map f1 = xs.map id := by
          apply List.map_congr_left
          intro a ha
          exact hf a (of_decide_eq_true (hall a ha))
      _ = xs := List.map_id xs
  · rfl

/-- **unit invariance**: a Quantity in a unit of `k` Å (`k ≠ 0`; nm: 10, µm: 10⁴) is answered
in the caller's unit and denotes the same physical wavelengths as converting the Å values:
`(result · k) = f (x · k)` elementwise, including the early return when everything is below 2000 Å -/
theorem unit_invariance (f1 : K → K) (hf : ∀ a, a < 2000 → f1 a = a) (k : K) (hk : k ≠ 0) (xs : List K) :
    (convArr f1 (some (k, 1 / k)) xs).map (· * k) = (xs.map (· * k)).map f1 := by
  simp only [convArr, val_guard]
  split
  · rename_i hall
    rw [List.all_eq_true] at hall
    symm
    calc (xs.map (· * k)).map f1 = (xs.map (· * k)).map id := by
          apply List.map_congr_left
          intro a ha
          exact hf a (of_decide_eq_true (hall a ha))
      _ = xs.map (· * k) := List.map_id _
  · simp only [List.map_map]
    apply List.map_congr_left
    intro a _
    simp only [Function.comp]
    field_simp

theorem airtovac_units (k : K) (hk : k ≠ 0) (xs : List K) :
    (airtovacArr (some (k, 1 / k)) xs).map (· * k) = (xs.map (· * k)).map airtovac1 :=
  unit_invariance airtovac1 (fun a h => (below_2000_identity a h).1) k hk xs

theorem vactoair_units (k : K) (hk : k ≠ 0) (xs : List K) :
    (vactoairArr (some (k, 1 / k)) xs).map (· * k) = (xs.map (· * k)).map vactoair1 :=
  unit_invariance vactoair1 (fun a h => (below_2000_identity a h).2) k hk xs

/-- a Quantity array entirely below 2000 Å is returned as it is (no unit round trip) -/
theorem below_2000_quantity (f1 : K → K) (k kinv : K) (xs : List K) (h : ∀ x ∈ xs, x * k < 2000) :
    convArr f1 (some (k, kinv)) xs = xs := by
  simp only [convArr, val_guard]
  rw [if_pos]
  rw [List.all_eq_true]
  intro a ha
  obtain ⟨x, hx, rfl⟩ := List.mem_map.mp ha
  exact decide_eq_true (h x hx)

/-! ## sdssflux2ab -/

/-- **one offset per band**: a five-column row is corrected column by column with the vector
(-0.042, 0.036, 0.015, 0.013, -0.002), the same for every row and in every mode; any other
row length is refused -/
theorem ab_row_bands (pow10 : K → K) (mode : AbMode) (u g r i z : K) :
    abRow pow10 mode [u, g, r, i, z] = .ok
      [abElem pow10 mode (-(42 / 1000)) u, abElem pow10 mode (36 / 1000) g, abElem pow10 mode (15 / 1000) r,
       abElem pow10 mode (13 / 1000) i, abElem pow10 mode (-(2 / 1000)) z] := by
  simp only [abRow, abCorr_eq]
  rfl

theorem ab_row_refused (pow10 : K → K) (mode : AbMode) (row : List K) (h : row.length ≠ 5) :
    abRow pow10 mode row = .error "ValueError" := by
  simp only [abRow]
  rw [if_neg]
  · rfl
  · exact h

/-- **flux and magnitude forms agree**: converting a flux `f > 0` with the flux form and taking
`-2.5 log10` gives the magnitude form applied to `-2.5 log10 f`, i.e. the offset `+c` of the band,
for any `pow10`/`log10` with `log10 (pow10 x) = x`, `log10 (xy) = log10 x + log10 y`, `pow10 x > 0` -/
theorem ab_consistent (pow10 log10 : K → K)
    (hlogpow : ∀ x, log10 (pow10 x) = x)
    (hlogmul : ∀ x y, 0 < x → 0 < y → log10 (x * y) = log10 x + log10 y)
    (hpos : ∀ x, 0 < pow10 x) (c f : K) (hf : 0 < f) :
    -(5 / 2) * log10 (abElem pow10 .flux c f) = abElem pow10 .mag c (-(5 / 2) * log10 f) := by
  simp only [abElem, abFactor, val_magscale]
  rw [hlogmul f _ hf (hpos _), hlogpow]
  ring

/-- **inverse-variance form agrees**: if the flux is multiplied by the band factor, its standard
deviation `σ` is too, and the inverse variance `1/σ²` becomes `1/(factor·σ)²`, which is what the
ivar form computes -/
theorem ab_ivar_consistent (pow10 : K → K) (hpos : ∀ x, 0 < pow10 x) (c sigma : K) (hs : sigma ≠ 0) :
    abElem pow10 .ivar c (1 / (sigma * sigma))
      = 1 / ((abFactor pow10 c * sigma) * (abFactor pow10 c * sigma)) := by
  have hF : abFactor pow10 c ≠ 0 := ne_of_gt (hpos _)
  simp only [abElem, val_one]
  field_simp

/-- the flux form scales the flux by exactly the factor the ivar form is built from -/
theorem ab_flux_factor (pow10 : K → K) (c f : K) : abElem pow10 .flux c f = abFactor pow10 c * f := by
  simp only [abElem]; ring

/-! ## filter_thru: band mean without mask -/

/-- **linearity**: the band mean of `a·f + b·g` is `a·mean f + b·mean g` (same weights) -/
theorem filter_linear (a b : K) (r f g : List K) (h : f.length = g.length) :
    filterMean r (List.zipWith (fun x y => a * x + b * y) f g) = a * filterMean r f + b * filterMean r g := by
  simp only [filterMean_eq, dot_lin a b f g r h]
  ring

/-- **constant spectrum**: if the band overlaps the wavelengths (`Σ r > 0`), a spectrum that is
`c` in every pixel has band mean `c` -/
theorem filter_const (c : K) (r : List K) (h : 0 < r.sum) :
    filterMean r (List.replicate r.length c) = c := by
  rw [filterMean_pos r _ h, dot_const]
  field_simp

/-- **between minimum and maximum**: with non-negative weights that overlap the band, the band
mean lies between any lower and upper bound of the flux values -/
theorem filter_between_min_max (lo hi : K) (r f : List K) (hlen : f.length = r.length)
    (hr : ∀ w ∈ r, 0 ≤ w) (h : 0 < r.sum) (hf : ∀ x ∈ f, lo ≤ x ∧ x ≤ hi) :
    lo ≤ filterMean r f ∧ filterMean r f ≤ hi := by
  obtain ⟨i1, i2⟩ := dot_bounds lo hi f r hlen hr hf
  rw [filterMean_pos r f h]
  constructor
  · rw [le_div_iff₀ h]; exact i1
  · rw [div_le_iff₀ h]; exact i2

/-- a band that does not overlap the wavelengths (non-negative weights with `Σ r ≤ 0`) gives 0 -/
theorem filter_no_overlap (r f : List K) (hr : ∀ w ∈ r, 0 ≤ w) (h : r.sum ≤ 0) : filterMean r f = 0 := by
  rw [filterMean_eq, dot_zero f r (all_zero_of_sum_le r hr h)]
  simp

/-! ## filter_thru: masked pixels (djs_maskinterp1 as modelled) -/

/-- **the contract of the mask interpolation holds for `djs_maskinterp1` as modelled**: if at
least one pixel is unmasked, the interpolated array depends only on the unmasked values -/
theorem maskInterp_independent {m : List Bool} {f f' : List K} (h : AgreeUnmasked m f f') (hg : false ∈ m) :
    maskInterp m f = maskInterp m f' := by
  unfold maskInterp
  by_cases hall : m.all (fun b => !b) = true
  · rw [if_pos hall, if_pos hall]; exact agree_all_good h hall
  · rw [if_neg hall, if_neg hall, ← goodsFrom_agree h 0]
    have hne := goodsFrom_ne_nil h hg 0
    match hgo : goodsFrom 0 m f with
    | [] => exact absurd hgo hne
    | [(_, v)] =>
      simp only []
      rw [List.map_const', List.map_const', h.length_eq]
    | g0 :: g1 :: rest =>
      simp only []
      exact fillFrom_agree h _ 0

/-- **masked pixels do not matter**: for any interpolation that depends only on the unmasked
values (the contract; `maskInterp_independent` shows the modelled `djs_maskinterp1` meets it),
two flux rows that agree on the unmasked pixels have the same band mean -/
theorem filter_mask_independent (interp : List Bool → List K → List K)
    (hc : ∀ m f f', AgreeUnmasked m f f' → false ∈ m → interp m f = interp m f')
    (m : List Bool) (r f f' : List K) (h : AgreeUnmasked m f f') (hg : false ∈ m) :
    filterMeanMasked interp m r f = filterMeanMasked interp m r f' := by
  simp only [filterMeanMasked, hc m f f' h hg]

/-- the same for the interpolation that filter_thru uses -/
theorem filter_mask_independent_model (m : List Bool) (r f f' : List K) (h : AgreeUnmasked m f f')
    (hg : false ∈ m) :
    filterMeanMasked maskInterp m r f = filterMeanMasked maskInterp m r f' :=
  filter_mask_independent maskInterp (fun _ _ _ h hg => maskInterp_independent h hg) m r f f' h hg

/-- **mask interpolation stays within the unmasked values**: if every unmasked pixel of the
row lies in `[lo, hi]` (and at least one pixel is unmasked), so does every pixel of the
interpolated row -/
theorem maskInterp_bounds (lo hi : K) (m : List Bool) (y : List K) (hlen : m.length = y.length)
    (hne : goodsFrom 0 m y ≠ [])
    (hy : ∀ p ∈ goodsFrom 0 m y, lo ≤ p.2 ∧ p.2 ≤ hi) :
    ∀ x ∈ maskInterp m y, lo ≤ x ∧ x ≤ hi := by
  unfold maskInterp
  by_cases hall : m.all (fun b => !b) = true
  · rw [if_pos hall]
    intro x hx
    obtain ⟨p, hp, e⟩ := goods_of_all_good 0 m y hall hlen x hx
    rw [← e]; exact hy p hp
  · rw [if_neg hall]
    match hgo : goodsFrom 0 m y with
    | [] => exact absurd hgo hne
    | [(j, v)] =>
      simp only []
      intro x hx
      obtain ⟨_, _, rfl⟩ := List.mem_map.mp hx
      have := hy (j, v) (by rw [hgo]; simp)
      simpa using this
    | g0 :: g1 :: rest =>
      simp only []
      rw [hgo] at hy
      exact fillFrom_bounds lo hi _ (by simp) hy 0 m y (by rw [hgo]; exact hy)

/-- **between minimum and maximum, with a mask**: non-negative weights overlapping the band, at
least one unmasked pixel, every unmasked flux value in `[lo, hi]` ⇒ the band mean of the
interpolated row is in `[lo, hi]` -/
theorem filter_between_min_max_masked (lo hi : K) (m : List Bool) (r f : List K)
    (hm : m.length = f.length) (hlen : f.length = r.length) (hg : false ∈ m)
    (hr : ∀ w ∈ r, 0 ≤ w) (h : 0 < r.sum)
    (hf : ∀ p ∈ goodsFrom 0 m f, lo ≤ p.2 ∧ p.2 ≤ hi) :
    lo ≤ filterMeanMasked maskInterp m r f ∧ filterMeanMasked maskInterp m r f ≤ hi := by
  unfold filterMeanMasked
  apply filter_between_min_max lo hi r _ (by rw [maskInterp_length m f hm, hlen]) hr h
  exact maskInterp_bounds lo hi m f hm (goodsFrom_ne_nil_of_mem 0 m f hg hm) hf

/-- a constant row is left constant by the mask interpolation -/
theorem maskInterp_const (c : K) (m : List Bool) (hg : false ∈ m) :
    maskInterp m (List.replicate m.length c) = List.replicate m.length c := by
  have hm : m.length = (List.replicate m.length c).length := by simp
  rw [List.eq_replicate_iff]
  refine ⟨by rw [maskInterp_length m _ hm]; simp, ?_⟩
  intro x hx
  have hb := maskInterp_bounds c c m _ hm (goodsFrom_ne_nil_of_mem 0 m _ hg hm)
    (fun p hp => by
      have := goodsFrom_values 0 m _ p hp
      rw [List.mem_replicate] at this
      rw [this.2]; exact ⟨le_rfl, le_rfl⟩) x hx
  exact le_antisymm hb.2 hb.1

/-- **constant spectrum, with a mask**: still `c` in every band that overlaps -/
theorem filter_const_masked (c : K) (m : List Bool) (r : List K) (hlen : m.length = r.length)
    (hg : false ∈ m) (h : 0 < r.sum) :
    filterMeanMasked maskInterp m r (List.replicate m.length c) = c := by
  unfold filterMeanMasked
  rw [maskInterp_const c m hg, hlen]
  exact filter_const c r h

/-- **the mask interpolation is linear**: interpolating `a·f + b·g` gives `a·interp f + b·interp g` -/
theorem maskInterp_linear (a b : K) (m : List Bool) (f g : List K) (hlen : f.length = g.length) :
    maskInterp m (lin a b f g) = lin a b (maskInterp m f) (maskInterp m g) := by
  unfold maskInterp
  split
  · rfl
  · obtain ⟨e1, e2⟩ := goods_lin a b 0 m f g hlen
    rw [e1]
    match hf : goodsFrom 0 m f, hg : goodsFrom 0 m g with
    | [], [] => simp [linG]
    | [], _ :: _ => rw [hf, hg] at e2; simp at e2
    | _ :: _, [] => rw [hf, hg] at e2; simp at e2
    | [(j, v)], [(k, w)] =>
      simp only [linG, List.zipWith_cons_cons, List.zipWith_nil_left]
      exact map_const_lin a b _ _ _ (by simp only [scalar_ofNat, Nat.cast_zero, zero_add]) f g hlen
    | [_], _ :: _ :: _ => rw [hf, hg] at e2; simp at e2
    | _ :: _ :: _, [_] => rw [hf, hg] at e2; simp at e2
    | p0 :: p1 :: rf, q0 :: q1 :: rg =>
      rw [hf, hg] at e2
      simp only [linG, List.zipWith_cons_cons]
      have := fill_lin a b (p0 :: p1 :: rf) (q0 :: q1 :: rg) e2 0 m f g
      simp only [linG, List.zipWith_cons_cons] at this
      exact this

/-- **linearity, with a mask** -/
theorem filter_linear_masked (a b : K) (m : List Bool) (r f g : List K) (hm : m.length = f.length)
    (hlen : f.length = g.length) :
    filterMeanMasked maskInterp m r (lin a b f g)
      = a * filterMeanMasked maskInterp m r f + b * filterMeanMasked maskInterp m r g := by
  unfold filterMeanMasked
  rw [maskInterp_linear a b m f g hlen]
  exact filter_linear a b r _ _ (by rw [maskInterp_length m f hm, maskInterp_length m g (hm.trans hlen), hlen])

end

/-! ## non-vacuity: the hypotheses of the theorems are met by concrete non-trivial inputs -/
section
attribute [local instance] fieldScalar
attribute [local instance 5] Scalar.instOfNat Scalar.instOfScientific

/-- 5000 Å is in the domain of both round trips -/
example : (2000 : ℝ) ≤ 5000 ∧ (2000 : ℝ) ≤ vactoair1 (5000 : ℝ) := by
  refine ⟨by norm_num, ?_⟩
  have h : (2000 : ℝ) ≤ 5000 := by norm_num
  obtain ⟨f0, f1⟩ := fact_bounds h
  rw [vactoair1_eq, if_neg (by norm_num), le_div_iff₀ (by linarith)]
  linarith

/-- a `pow10`/`log10` pair with the contract of `ab_consistent` exists (ℝ, `10^x` and `log₁₀`) -/
example : ∃ pow10 log10 : ℝ → ℝ, (∀ x, log10 (pow10 x) = x) ∧
    (∀ x y, 0 < x → 0 < y → log10 (x * y) = log10 x + log10 y) ∧ (∀ x, 0 < pow10 x) := by
  have hL : Real.log 10 ≠ 0 := ne_of_gt (Real.log_pos (by norm_num))
  refine ⟨fun x => Real.exp (x * Real.log 10), fun y => Real.log y / Real.log 10, ?_, ?_, ?_⟩
  · intro x; simp only [Real.log_exp]; field_simp
  · intro x y hx hy; simp only [Real.log_mul (ne_of_gt hx) (ne_of_gt hy)]; ring
  · intro x; exact Real.exp_pos _

/-- weights that overlap the band, a flux row between 1 and 7, a mask with good and bad pixels -/
example : (0 : ℝ) < ([1, 2, 0] : List ℝ).sum ∧ (∀ w ∈ ([1, 2, 0] : List ℝ), 0 ≤ w) ∧
    (∀ x ∈ ([1, 7, 3] : List ℝ), (1 : ℝ) ≤ x ∧ x ≤ 7) ∧
    AgreeUnmasked [false, true, false] ([1, 5, 3] : List ℝ) [1, 7, 3] ∧ false ∈ [false, true, false] := by
  refine ⟨by norm_num, ?_, ?_, ?_, by simp⟩
  · intro w hw
    simp only [List.mem_cons, List.not_mem_nil, or_false] at hw
    rcases hw with rfl | rfl | rfl <;> norm_num
  · intro w hw
    simp only [List.mem_cons, List.not_mem_nil, or_false] at hw
    rcases hw with rfl | rfl | rfl <;> norm_num
  · exact .good 1 (.bad 5 7 (.good 3 .nil))

/-- the unmasked pixels of a masked row, as the masked theorems see them -/
example : goodsFrom 0 [false, true, false] ([1, 5, 3] : List ℝ) = [(0, 1), (2, 3)] := by
  rfl

end
end PydlVerif.C19

/-
C19 property theorems: airtovac / vactoair (identity below 2000 Å, vacuum > air, both round
trips, unit invariance, array = map), sdssflux2ab (one offset per band, flux / magnitude / ivar
forms consistent), filter_thru (linear, constant, min/max, no overlap, masked pixels) - over
any linearly ordered field, for all inputs.  Helper lemmas are in Lemmas/Wave.lean.
The theorems audited by the check are listed in harness/props/c19.py.
-/
import PydlVerif.Lemmas.Wave
import PydlVerif.Lemmas.WaveRev
import PydlVerif.Lemmas.WaveFit
import Mathlib.Analysis.SpecialFunctions.Log.Basic

set_option linter.unusedSectionVars false

namespace PydlVerif.C19
open PydlVerif PydlVerif.Wave PydlVerif.WaveFit PydlVerif.Trace

section
variable {K : Type} [Field K] [LinearOrder K] [IsStrictOrderedRing K] [FloorRing K]
attribute [local instance] fieldScalar
-- numerals of K are the field's own; the Scalar literal instances are only met inside unfolded model terms
attribute [local instance 5] Scalar.instOfNat Scalar.instOfScientific

/-! ## airtovac / vactoair -/

/-- wavelengths below 2000 Å are returned unchanged by both conversions -/
theorem below_2000_identity (a : K) (h : a < 2000) : airtovac1 a = a ∧ vactoair1 a = a := by
  rw [airtovac1_eq, vactoair1_eq, if_pos h, if_pos h]
  exact ⟨rfl, rfl⟩

/-- above the guard: vacuum wavelength > air wavelength, in both directions -/
theorem vac_gt_air (x : K) (h : 2000 ≤ x) : x < airtovac1 x ∧ vactoair1 x < x := by
  have hx0 : 0 < x := by linarith
  have hn : ¬ x < 2000 := not_lt.mpr h
  rw [airtovac1_eq, vactoair1_eq, if_neg hn, if_neg hn]
  have f0 := (fact_bounds h).1
  have h1 : 2000 ≤ x * fact x := by nlinarith
  have f1 := (fact_bounds h1).1
  constructor
  · nlinarith
  · rw [div_lt_iff₀ (by linarith)]; nlinarith

/-- sharp form: `|vactoair(airtovac a) - a| ≤ 109/a³` for `a ≥ 2000` -/
theorem roundtrip_air_sharp (a : K) (h : 2000 ≤ a) :
    |vactoair1 (airtovac1 a) - a| ≤ 109 / (a * a * a) := by
  have ha0 : 0 < a := by linarith
  have hn : ¬ a < 2000 := not_lt.mpr h
  obtain ⟨f0, f0'⟩ := fact_bounds h
  have h1 : a ≤ a * fact a := by nlinarith
  obtain ⟨f1, _⟩ := fact_bounds (le_trans h h1)
  have h2 : a ≤ a * fact (a * fact a) := by nlinarith
  obtain ⟨f2, _⟩ := fact_bounds (le_trans h h2)
  have hn2 : ¬ a * fact (a * fact a) < 2000 := not_lt.mpr (le_trans h h2)
  rw [airtovac1_eq, if_neg hn, vactoair1_eq, if_neg hn2]
  set F1 := fact (a * fact a) with hF1
  set F2 := fact (a * F1) with hF2
  have e : a * F1 / F2 - a = a * (F1 - F2) / F2 := by
    field_simp
  have hpq : |a - a * fact a| ≤ a * (325 / 1000000) := by
    rw [abs_sub_comm, abs_of_nonneg (by linarith)]; nlinarith
  have key := two_steps h le_rfl h1 hpq (by nlinarith [(fact_bounds h).1]) h2
  rw [← hF1, ← hF2] at key
  rw [e, abs_div, abs_mul, abs_of_pos ha0, abs_of_pos (by linarith : 0 < F2)]
  rw [div_le_iff₀ (by linarith)]
  have : 0 ≤ 109 / (a * a * a) := by positivity
  nlinarith

/-- sharp form of the other direction: wherever `vactoair v ≥ 2000`,
`|airtovac(vactoair v) - v| ≤ 109/a³` with `a = vactoair v` -/
theorem roundtrip_vac_sharp (v : K) (h : 2000 ≤ vactoair1 v) :
    |airtovac1 (vactoair1 v) - v| ≤ 109 / (vactoair1 v * vactoair1 v * vactoair1 v) := by
  have hv : 2000 ≤ v := by
    by_contra hc
    have hc' : v < 2000 := not_le.mp hc
    rw [(below_2000_identity v hc').2] at h
    exact hc h
  obtain ⟨fv, fv'⟩ := fact_bounds hv
  have hnv : ¬ v < 2000 := not_lt.mpr hv
  have hdef : vactoair1 v = v / fact v := by rw [vactoair1_eq, if_neg hnv]
  set a := vactoair1 v with ha
  have ha0 : 0 < a := by linarith
  have hva : v = a * fact v := by rw [hdef]; field_simp
  have hn : ¬ a < 2000 := not_lt.mpr h
  obtain ⟨f0, f0'⟩ := fact_bounds h
  have h1 : a ≤ a * fact a := by nlinarith
  have hav : a ≤ v := by rw [hva]; nlinarith
  rw [airtovac1_eq, if_neg hn]
  have hpq : |a - v| ≤ a * (325 / 1000000) := by
    rw [abs_sub_comm, abs_of_nonneg (by linarith)]
    rw [hva]; nlinarith
  have key := two_steps h le_rfl hav hpq h1 (by rw [← hva]; exact hav)
  rw [← hva] at key
  have e : a * fact (a * fact a) - v = a * (fact (a * fact a) - fact v) := by
    rw [mul_sub, ← hva]
  rw [e, abs_mul, abs_of_pos ha0]
  exact key

/-- **round trip**: `vactoair(airtovac a) = a` for every `a ≥ 2000 Å` and
`airtovac(vactoair v) = v` wherever `vactoair v ≥ 2000 Å`, to better than `2·10⁻⁸ Å`
(the property asks for `10⁻⁶ Å`) -/
theorem roundtrip_bound (x : K) :
    (2000 ≤ x → |vactoair1 (airtovac1 x) - x| ≤ 2 / 100000000) ∧
    (2000 ≤ vactoair1 x → |airtovac1 (vactoair1 x) - x| ≤ 2 / 100000000) :=
  ⟨fun h => le_trans (roundtrip_air_sharp x h) (small_const h),
   fun h => le_trans (roundtrip_vac_sharp x h) (small_const h)⟩

/-- the array / numpy-scalar path without unit is the scalar conversion mapped over the elements
(float, numpy scalar, 0-d array and array input give the same numbers) -/
theorem array_is_map (f1 : K → K) (hf : ∀ a, a < 2000 → f1 a = a) (xs : List K) :
    convArr f1 none xs = xs.map f1 := by
  simp only [convArr, val_guard]
  split
  · rename_i hall
    rw [List.all_eq_true] at hall
    symm
    calc xs.map f1 = xs.map id := by
          apply List.map_congr_left
          intro a ha
          exact hf a (of_decide_eq_true (hall a ha))
      _ = xs := List.map_id xs
  · rfl

/-- **unit invariance**: a Quantity in a unit of `k` Å (`k ≠ 0`; nm: 10, µm: 10⁴) is answered
in the caller's unit and denotes the same physical wavelengths as converting the Å values:
`(result · k) = f (x · k)` elementwise, including the early return when everything is below 2000 Å -/
theorem unit_invariance (f1 : K → K) (hf : ∀ a, a < 2000 → f1 a = a) (k : K) (hk : k ≠ 0) (xs : List K) :
    (convArr f1 (some (k, 1 / k)) xs).map (· * k) = (xs.map (· * k)).map f1 := by
  simp only [convArr, val_guard]
  split
  · rename_i hall
    rw [List.all_eq_true] at hall
    symm
    calc (xs.map (· * k)).map f1 = (xs.map (· * k)).map id := by
          apply List.map_congr_left
          intro a ha
          exact hf a (of_decide_eq_true (hall a ha))
      _ = xs.map (· * k) := List.map_id _
  · simp only [List.map_map]
    apply List.map_congr_left
    intro a _
    simp only [Function.comp]
    field_simp

theorem airtovac_units (k : K) (hk : k ≠ 0) (xs : List K) :
    (airtovacArr (some (k, 1 / k)) xs).map (· * k) = (xs.map (· * k)).map airtovac1 :=
  unit_invariance airtovac1 (fun a h => (below_2000_identity a h).1) k hk xs

theorem vactoair_units (k : K) (hk : k ≠ 0) (xs : List K) :
    (vactoairArr (some (k, 1 / k)) xs).map (· * k) = (xs.map (· * k)).map vactoair1 :=
  unit_invariance vactoair1 (fun a h => (below_2000_identity a h).2) k hk xs

/-- a Quantity array entirely below 2000 Å is returned as it is (no unit round trip) -/
theorem below_2000_quantity (f1 : K → K) (k kinv : K) (xs : List K) (h : ∀ x ∈ xs, x * k < 2000) :
    convArr f1 (some (k, kinv)) xs = xs := by
  simp only [convArr, val_guard]
  rw [if_pos]
  rw [List.all_eq_true]
  intro a ha
  obtain ⟨x, hx, rfl⟩ := List.mem_map.mp ha
  exact decide_eq_true (h x hx)

/-! ## sdssflux2ab -/

/-- **one offset per band**: a five-column row is corrected column by column with the vector
(-0.042, 0.036, 0.015, 0.013, -0.002), the same for every row and in every mode; any other
row length is refused -/
theorem ab_row_bands (pow10 : K → K) (mode : AbMode) (u g r i z : K) :
    abRow pow10 mode [u, g, r, i, z] = .ok
      [abElem pow10 mode (-(42 / 1000)) u, abElem pow10 mode (36 / 1000) g, abElem pow10 mode (15 / 1000) r,
       abElem pow10 mode (13 / 1000) i, abElem pow10 mode (-(2 / 1000)) z] := by
  simp only [abRow, abCorr_eq]
  rfl

theorem ab_row_refused (pow10 : K → K) (mode : AbMode) (row : List K) (h : row.length ≠ 5) :
    abRow pow10 mode row = .error "ValueError" := by
  simp only [abRow]
  rw [if_neg]
  · rfl
  · exact h

/-- **flux and magnitude forms agree**: converting a flux `f > 0` with the flux form and taking
`-2.5 log10` gives the magnitude form applied to `-2.5 log10 f`, i.e. the offset `+c` of the band,
for any `pow10`/`log10` with `log10 (pow10 x) = x`, `log10 (xy) = log10 x + log10 y`, `pow10 x > 0` -/
theorem ab_consistent (pow10 log10 : K → K)
    (hlogpow : ∀ x, log10 (pow10 x) = x)
    (hlogmul : ∀ x y, 0 < x → 0 < y → log10 (x * y) = log10 x + log10 y)
    (hpos : ∀ x, 0 < pow10 x) (c f : K) (hf : 0 < f) :
    -(5 / 2) * log10 (abElem pow10 .flux c f) = abElem pow10 .mag c (-(5 / 2) * log10 f) := by
  simp only [abElem, abFactor, val_magscale]
  rw [hlogmul f _ hf (hpos _), hlogpow]
  ring

/-- **inverse-variance form agrees**: if the flux is multiplied by the band factor, its standard
deviation `σ` is too, and the inverse variance `1/σ²` becomes `1/(factor·σ)²`, which is what the
ivar form computes -/
theorem ab_ivar_consistent (pow10 : K → K) (hpos : ∀ x, 0 < pow10 x) (c sigma : K) (hs : sigma ≠ 0) :
    abElem pow10 .ivar c (1 / (sigma * sigma))
      = 1 / ((abFactor pow10 c * sigma) * (abFactor pow10 c * sigma)) := by
  have hF : abFactor pow10 c ≠ 0 := ne_of_gt (hpos _)
  simp only [abElem, val_one]
  field_simp

/-- the flux form scales the flux by exactly the factor the ivar form is built from -/
theorem ab_flux_factor (pow10 : K → K) (c f : K) : abElem pow10 .flux c f = abFactor pow10 c * f := by
  simp only [abElem]; ring

/-! ## filter_thru: band mean without mask -/

/-- **linearity**: the band mean of `a·f + b·g` is `a·mean f + b·mean g` (same weights) -/
theorem filter_linear (a b : K) (r f g : List K) (h : f.length = g.length) :
    filterMean r (List.zipWith (fun x y => a * x + b * y) f g) = a * filterMean r f + b * filterMean r g := by
  simp only [filterMean_eq, dot_lin a b f g r h]
  ring

/-- **constant spectrum**: if the band overlaps the wavelengths (`Σ r > 0`), a spectrum that is
`c` in every pixel has band mean `c` -/
theorem filter_const (c : K) (r : List K) (h : 0 < r.sum) :
    filterMean r (List.replicate r.length c) = c := by
  rw [filterMean_pos r _ h, dot_const]
  field_simp

/-- **between minimum and maximum**: with non-negative weights that overlap the band, the band
mean lies between any lower and upper bound of the flux values -/
theorem filter_between_min_max (lo hi : K) (r f : List K) (hlen : f.length = r.length)
    (hr : ∀ w ∈ r, 0 ≤ w) (h : 0 < r.sum) (hf : ∀ x ∈ f, lo ≤ x ∧ x ≤ hi) :
    lo ≤ filterMean r f ∧ filterMean r f ≤ hi := by
  obtain ⟨i1, i2⟩ := dot_bounds lo hi f r hlen hr hf
  rw [filterMean_pos r f h]
  constructor
  · rw [le_div_iff₀ h]; exact i1
  · rw [div_le_iff₀ h]; exact i2

/-- a band that does not overlap the wavelengths (non-negative weights with `Σ r ≤ 0`) gives 0 -/
theorem filter_no_overlap (r f : List K) (hr : ∀ w ∈ r, 0 ≤ w) (h : r.sum ≤ 0) : filterMean r f = 0 := by
  rw [filterMean_eq, dot_zero f r (all_zero_of_sum_le r hr h)]
  simp

/-! ## filter_thru: masked pixels (djs_maskinterp1 as modelled) -/

/-- **the contract of the mask interpolation holds for `djs_maskinterp1` as modelled**: if at
least one pixel is unmasked, the interpolated array depends only on the unmasked values -/
theorem maskInterp_independent {m : List Bool} {f f' : List K} (h : AgreeUnmasked m f f') (hg : false ∈ m) :
    maskInterp m f = maskInterp m f' := by
  unfold maskInterp
  by_cases hall : m.all (fun b => !b) = true
  · rw [if_pos hall, if_pos hall]; exact agree_all_good h hall
  · rw [if_neg hall, if_neg hall, ← goodsFrom_agree h 0]
    have hne := goodsFrom_ne_nil h hg 0
    match hgo : goodsFrom 0 m f with
    | [] => exact absurd hgo hne
    | [(_, v)] =>
      simp only []
      rw [List.map_const', List.map_const', h.length_eq]
    | g0 :: g1 :: rest =>
      simp only []
      exact fillFrom_agree h _ 0

/-- **masked pixels do not matter**: for any interpolation that depends only on the unmasked
values (the contract; `maskInterp_independent` shows the modelled `djs_maskinterp1` meets it),
two flux rows that agree on the unmasked pixels have the same band mean -/
theorem filter_mask_independent (interp : List Bool → List K → List K)
    (hc : ∀ m f f', AgreeUnmasked m f f' → false ∈ m → interp m f = interp m f')
    (m : List Bool) (r f f' : List K) (h : AgreeUnmasked m f f') (hg : false ∈ m) :
    filterMeanMasked interp m r f = filterMeanMasked interp m r f' := by
  simp only [filterMeanMasked, hc m f f' h hg]

/-- the same for the interpolation that filter_thru uses -/
theorem filter_mask_independent_model (m : List Bool) (r f f' : List K) (h : AgreeUnmasked m f f')
    (hg : false ∈ m) :
    filterMeanMasked maskInterp m r f = filterMeanMasked maskInterp m r f' :=
  filter_mask_independent maskInterp (fun _ _ _ h hg => maskInterp_independent h hg) m r f f' h hg

/-- **mask interpolation stays within the unmasked values**: if every unmasked pixel of the
row lies in `[lo, hi]` (and at least one pixel is unmasked), so does every pixel of the
interpolated row -/
theorem maskInterp_bounds (lo hi : K) (m : List Bool) (y : List K) (hlen : m.length = y.length)
    (hne : goodsFrom 0 m y ≠ [])
    (hy : ∀ p ∈ goodsFrom 0 m y, lo ≤ p.2 ∧ p.2 ≤ hi) :
    ∀ x ∈ maskInterp m y, lo ≤ x ∧ x ≤ hi := by
  unfold maskInterp
  by_cases hall : m.all (fun b => !b) = true
  · rw [if_pos hall]
    intro x hx
    obtain ⟨p, hp, e⟩ := goods_of_all_good 0 m y hall hlen x hx
    rw [← e]; exact hy p hp
  · rw [if_neg hall]
    match hgo : goodsFrom 0 m y with
    | [] => exact absurd hgo hne
    | [(j, v)] =>
      simp only []
      intro x hx
      obtain ⟨_, _, rfl⟩ := List.mem_map.mp hx
      have := hy (j, v) (by rw [hgo]; simp)
      simpa using this
    | g0 :: g1 :: rest =>
      simp only []
      rw [hgo] at hy
      exact fillFrom_bounds lo hi _ (by simp) hy 0 m y (by rw [hgo]; exact hy)

/-- **between minimum and maximum, with a mask**: non-negative weights overlapping the band, at
least one unmasked pixel, every unmasked flux value in `[lo, hi]` ⇒ the band mean of the
interpolated row is in `[lo, hi]` -/
theorem filter_between_min_max_masked (lo hi : K) (m : List Bool) (r f : List K)
    (hm : m.length = f.length) (hlen : f.length = r.length) (hg : false ∈ m)
    (hr : ∀ w ∈ r, 0 ≤ w) (h : 0 < r.sum)
    (hf : ∀ p ∈ goodsFrom 0 m f, lo ≤ p.2 ∧ p.2 ≤ hi) :
    lo ≤ filterMeanMasked maskInterp m r f ∧ filterMeanMasked maskInterp m r f ≤ hi := by
  unfold filterMeanMasked
  apply filter_between_min_max lo hi r _ (by rw [maskInterp_length m f hm, hlen]) hr h
  exact maskInterp_bounds lo hi m f hm (goodsFrom_ne_nil_of_mem 0 m f hg hm) hf

/-- a constant row is left constant by the mask interpolation -/
theorem maskInterp_const (c : K) (m : List Bool) (hg : false ∈ m) :
    maskInterp m (List.replicate m.length c) = List.replicate m.length c := by
  have hm : m.length = (List.replicate m.length c).length := by simp
  rw [List.eq_replicate_iff]
  refine ⟨by rw [maskInterp_length m _ hm]; simp, ?_⟩
  intro x hx
  have hb := maskInterp_bounds c c m _ hm (goodsFrom_ne_nil_of_mem 0 m _ hg hm)
    (fun p hp => by
      have := goodsFrom_values 0 m _ p hp
      rw [List.mem_replicate] at this
      rw [this.2]; exact ⟨le_rfl, le_rfl⟩) x hx
  exact le_antisymm hb.2 hb.1

/-- **constant spectrum, with a mask**: still `c` in every band that overlaps -/
theorem filter_const_masked (c : K) (m : List Bool) (r : List K) (hlen : m.length = r.length)
    (hg : false ∈ m) (h : 0 < r.sum) :
    filterMeanMasked maskInterp m r (List.replicate m.length c) = c := by
  unfold filterMeanMasked
  rw [maskInterp_const c m hg, hlen]
  exact filter_const c r h

/-- **the mask interpolation is linear**: interpolating `a·f + b·g` gives `a·interp f + b·interp g` -/
theorem maskInterp_linear (a b : K) (m : List Bool) (f g : List K) (hlen : f.length = g.length) :
    maskInterp m (lin a b f g) = lin a b (maskInterp m f) (maskInterp m g) := by
  unfold maskInterp
  split
  · rfl
  · obtain ⟨e1, e2⟩ := goods_lin a b 0 m f g hlen
    rw [e1]
    match hf : goodsFrom 0 m f, hg : goodsFrom 0 m g with
    | [], [] => simp [linG]
    | [], _ :: _ => rw [hf, hg] at e2; simp at e2
    | _ :: _, [] => rw [hf, hg] at e2; simp at e2
    | [(j, v)], [(k, w)] =>
      simp only [linG, List.zipWith_cons_cons, List.zipWith_nil_left]
      exact map_const_lin a b _ _ _ (by simp only [scalar_ofNat, Nat.cast_zero, zero_add]) f g hlen
    | [_], _ :: _ :: _ => rw [hf, hg] at e2; simp at e2
    | _ :: _ :: _, [_] => rw [hf, hg] at e2; simp at e2
    | p0 :: p1 :: rf, q0 :: q1 :: rg =>
      rw [hf, hg] at e2
      simp only [linG, List.zipWith_cons_cons]
      have := fill_lin a b (p0 :: p1 :: rf) (q0 :: q1 :: rg) e2 0 m f g
      simp only [linG, List.zipWith_cons_cons] at this
      exact this

/-- **linearity, with a mask** -/
theorem filter_linear_masked (a b : K) (m : List Bool) (r f g : List K) (hm : m.length = f.length)
    (hlen : f.length = g.length) :
    filterMeanMasked maskInterp m r (lin a b f g)
      = a * filterMeanMasked maskInterp m r f + b * filterMeanMasked maskInterp m r g := by
  unfold filterMeanMasked
  rw [maskInterp_linear a b m f g hlen]
  exact filter_linear a b r _ _ (by rw [maskInterp_length m f hm, maskInterp_length m g (hm.trans hlen), hlen])

/-! ## extension round -/

/-! ### airtovac / vactoair: mixed arrays, round trip of an array, monotonicity -/

/-- **mixed array**: an array with elements on both sides of 2000 Å is converted element by element -
those below are returned unchanged, the others go through the two iterations / the division -/
theorem array_mixed (xs : List K) :
    airtovacArr none xs = xs.map (fun a => if a < 2000 then a else a * fact (a * fact a)) ∧
    vactoairArr none xs = xs.map (fun v => if v < 2000 then v else v / fact v) := by
  constructor
  · rw [airtovacArr, array_is_map airtovac1 (fun a h => (below_2000_identity a h).1)]
    exact List.map_congr_left (fun a _ => airtovac1_eq a)
  · rw [vactoairArr, array_is_map vactoair1 (fun a h => (below_2000_identity a h).2)]
    exact List.map_congr_left (fun a _ => vactoair1_eq a)

/-- the scalar round trip `vactoair(airtovac a)` is within `2·10⁻⁸` for EVERY `a` (exact below 2000 Å) -/
theorem roundtrip_air_all (a : K) : |vactoair1 (airtovac1 a) - a| ≤ 2 / 100000000 := by
  by_cases h : a < 2000
  · rw [(below_2000_identity a h).1, (below_2000_identity a h).2, sub_self, abs_zero]; norm_num
  · exact (roundtrip_bound a).1 (not_lt.mp h)

/-- **round trip of a mixed array**: `vactoair(airtovac(xs))` is the scalar round trip of every element,
hence within `2·10⁻⁸ Å` of `xs` elementwise, whatever the mixture of elements below and above 2000 Å;
`airtovac(vactoair(xs))` likewise for the elements with `vactoair v ≥ 2000` or `v < 2000` -/
theorem roundtrip_array (xs : List K) :
    vactoairArr none (airtovacArr none xs) = xs.map (fun a => vactoair1 (airtovac1 a)) ∧
    airtovacArr none (vactoairArr none xs) = xs.map (fun v => airtovac1 (vactoair1 v)) ∧
    (∀ a ∈ xs, |vactoair1 (airtovac1 a) - a| ≤ 2 / 100000000) ∧
    (∀ v ∈ xs, (v < 2000 ∨ 2000 ≤ vactoair1 v) → |airtovac1 (vactoair1 v) - v| ≤ 2 / 100000000) := by
  have ha := array_is_map (K := K) airtovac1 (fun a h => (below_2000_identity a h).1)
  have hv := array_is_map (K := K) vactoair1 (fun a h => (below_2000_identity a h).2)
  refine ⟨?_, ?_, fun a _ => roundtrip_air_all a, ?_⟩
  · rw [airtovacArr, vactoairArr, ha, hv, List.map_map]; rfl
  · rw [airtovacArr, vactoairArr, hv, ha, List.map_map]; rfl
  · intro v _ h
    rcases h with h | h
    · rw [(below_2000_identity v h).2, (below_2000_identity v h).1, sub_self, abs_zero]; norm_num
    · exact (roundtrip_bound v).2 h

/-- **airtovac is strictly increasing** on the whole line: identity below 2000 Å, a jump upwards at the
guard (`vac_gt_air`), and above it `a·F(a·F(a))` increases because `F` is Lipschitz with constant `578/a³` -/
theorem airtovac_strict_mono (x y : K) (hxy : x < y) : airtovac1 x < airtovac1 y := by
  by_cases hy : y < 2000
  · rw [(below_2000_identity y hy).1, (below_2000_identity x (lt_trans hxy hy)).1]; exact hxy
  · have hy' : 2000 ≤ y := not_lt.mp hy
    by_cases hx : x < 2000
    · rw [(below_2000_identity x hx).1]
      exact lt_trans (lt_of_lt_of_le hx hy') (vac_gt_air y hy').1
    · rw [airtovac1_eq, airtovac1_eq, if_neg hx, if_neg hy]
      exact airtovac_mono_aux (not_lt.mp hx) hxy

/-- **vactoair is strictly increasing on `[2000, ∞)`** (and, being the identity, below 2000 Å).  It is NOT
increasing across the guard: `vactoair 2000 ≈ 1999.35 < 1999.9 = vactoair 1999.9` (example below). -/
theorem vactoair_strict_mono_above (x y : K) (hx : 2000 ≤ x) (hxy : x < y) : vactoair1 x < vactoair1 y := by
  rw [vactoair1_eq, vactoair1_eq, if_neg (not_lt.mpr hx), if_neg (not_lt.mpr (le_trans hx hxy.le))]
  exact vactoair_mono_aux hx hxy

theorem vactoair_strict_mono_below (x y : K) (hy : y < 2000) (hxy : x < y) : vactoair1 x < vactoair1 y := by
  rw [(below_2000_identity y hy).2, (below_2000_identity x (lt_trans hxy hy)).2]; exact hxy

/-- **answering in the caller's unit preserves the order**: for a Quantity array in a unit of `k > 0` Å with an
element at or above 2000 Å, two elements `x < y` (both at or above 2000 Å for vactoair) keep their order -/
theorem units_order_preserving (k : K) (hk : 0 < k) (x y : K) (hxy : x < y) :
    airtovac1 (x * k) * (1 / k) < airtovac1 (y * k) * (1 / k) ∧
    (2000 ≤ x * k → vactoair1 (x * k) * (1 / k) < vactoair1 (y * k) * (1 / k)) := by
  have hk' : 0 < 1 / k := by positivity
  have hxy' : x * k < y * k := mul_lt_mul_of_pos_right hxy hk
  exact ⟨mul_lt_mul_of_pos_right (airtovac_strict_mono _ _ hxy') hk',
         fun h => mul_lt_mul_of_pos_right (vactoair_strict_mono_above _ _ h hxy') hk'⟩

/-! ### filter_thru: the weight image as the code computes it -/

/-- `vactoair` of a whole image is the scalar conversion of every pixel (the early return for an image
entirely below 2000 Å returns the same values) -/
theorem toairImg_eq (img : List (List K)) :
    toairImg true img = img.map (List.map vactoair1) ∧ toairImg false img = img := by
  constructor
  · simp only [toairImg, if_true, vactoairArr]
    rw [array_is_map vactoair1 (fun a h => (below_2000_identity a h).2)]
    exact reshapeLike_map vactoair1 img
  · simp [toairImg]

/-- **`toair` only changes the wavelengths at which the response is read**: with the same fitted
`d log λ` image, `filter_thru(…, toair=True)` on `wave` is `filter_thru(…, toair=False)` on `vactoair(wave)` -/
theorem toair_only_wavelengths (lds : List (List K)) (curves : List (List (K × K))) (wave : List (List K))
    (masks : Option (List (List Bool))) (flux : List (List K)) :
    filterThru true lds curves wave masks flux
      = filterThru false lds curves (wave.map (List.map vactoair1)) masks flux := by
  simp only [filterThru, (toairImg_eq wave).1, (toairImg_eq (wave.map (List.map vactoair1))).2]

/-- what one band of one trace is, when the shapes agree: the normalised sum `filterMean` over the weights
`|ld| · np.interp(w, curve)` and the (mask-interpolated) flux - so every `filter_*` theorem above applies
to the weights the code computes -/
theorem bandFlux_ok (ld : List K) (x0 f0 : K) (rest : List (K × K)) (w : List K) (mask : Option (List Bool))
    (f : List K) (h1 : ld.length = w.length) (h2 : f.length = w.length) :
    bandFlux ld ((x0, f0) :: rest) w mask f
      = .ok (filterMean (weightsOf ld x0 f0 rest w) (match mask with | none => f | some m => maskInterp m f)) := by
  simp only [bandFlux, weightRow, if_pos h1, if_pos h2]
  rfl

/-- **the weights are ≥ 0 whenever the filter response is ≥ 0** -/
theorem weights_nonneg (ld : List K) (x0 f0 : K) (rest : List (K × K)) (w : List K)
    (hc : ∀ q ∈ (x0, f0) :: rest, 0 ≤ q.2) : ∀ v ∈ weightsOf ld x0 f0 rest w, 0 ≤ v := by
  unfold weightsOf
  apply zipWith_mem_imp
  intro d x _
  rw [absS_eq]
  exact mul_nonneg (abs_nonneg d) (npInterp_nonneg x0 f0 rest hc x)

/-- **pixels outside the filter curve get weight 0**: filter_thru passes neither `left` nor `right` to
`np.interp`, so a pixel left of the first / from the last curve wavelength on gets `|ld|·fp[0]` / `|ld|·fp[-1]` -
zero exactly when the curve starts and ends at zero response (the harness checks that of the five files) -/
theorem weights_zero_outside (ld : List K) (x0 f0 : K) (rest : List (K × K)) (w : List K)
    (h0 : f0 = 0) (hl : (((x0, f0) :: rest).getLast (List.cons_ne_nil _ _)).2 = 0)
    (hw : ∀ x ∈ w, x < x0 ∨ ∀ q ∈ (x0, f0) :: rest, q.1 ≤ x) : ∀ v ∈ weightsOf ld x0 f0 rest w, v = 0 := by
  unfold weightsOf
  apply zipWith_mem_imp
  intro d x hx
  rcases hw x hx with h | h
  · rw [npInterp_left x0 f0 rest x h, h0, mul_zero]
  · rw [npInterp_right x0 f0 rest x h, hl, mul_zero]

/-- **no overlap, real weights**: a trace whose (air or vacuum) wavelengths all lie outside the curve gives
exactly 0 in that band, whatever the flux, the mask and the fitted `d log λ` -/
theorem bandflux_no_overlap (ld : List K) (x0 f0 : K) (rest : List (K × K)) (w : List K) (mask : Option (List Bool))
    (f : List K) (h1 : ld.length = w.length) (h2 : f.length = w.length)
    (h0 : f0 = 0) (hl : (((x0, f0) :: rest).getLast (List.cons_ne_nil _ _)).2 = 0)
    (hw : ∀ x ∈ w, x < x0 ∨ ∀ q ∈ (x0, f0) :: rest, q.1 ≤ x) :
    bandFlux ld ((x0, f0) :: rest) w mask f = .ok 0 := by
  rw [bandFlux_ok ld x0 f0 rest w mask f h1 h2, filterMean_eq,
    dot_zero _ _ (weights_zero_outside ld x0 f0 rest w h0 hl hw)]
  simp

/-- **between minimum and maximum, real weights**: for a non-negative filter curve and a band that overlaps
(`Σ weights > 0`), the band flux computed from the wavelength image lies within the bounds of the flux -/
theorem bandflux_between_min_max (lo hi : K) (ld : List K) (x0 f0 : K) (rest : List (K × K)) (w f : List K)
    (h1 : ld.length = w.length) (h2 : f.length = w.length) (hc : ∀ q ∈ (x0, f0) :: rest, 0 ≤ q.2)
    (hs : 0 < (weightsOf ld x0 f0 rest w).sum) (hf : ∀ x ∈ f, lo ≤ x ∧ x ≤ hi) :
    ∃ v, bandFlux ld ((x0, f0) :: rest) w none f = .ok v ∧ lo ≤ v ∧ v ≤ hi := by
  refine ⟨_, bandFlux_ok ld x0 f0 rest w none f h1 h2, ?_⟩
  exact filter_between_min_max lo hi _ f (by rw [weightsOf_length ld x0 f0 rest w h1, h2])
    (weights_nonneg ld x0 f0 rest w hc) hs hf

/-- the same with a mask: bounds of the unmasked flux values -/
theorem bandflux_between_min_max_masked (lo hi : K) (ld : List K) (x0 f0 : K) (rest : List (K × K)) (w f : List K)
    (m : List Bool) (hm : m.length = f.length) (hg : false ∈ m)
    (h1 : ld.length = w.length) (h2 : f.length = w.length) (hc : ∀ q ∈ (x0, f0) :: rest, 0 ≤ q.2)
    (hs : 0 < (weightsOf ld x0 f0 rest w).sum) (hf : ∀ p ∈ goodsFrom 0 m f, lo ≤ p.2 ∧ p.2 ≤ hi) :
    ∃ v, bandFlux ld ((x0, f0) :: rest) w (some m) f = .ok v ∧ lo ≤ v ∧ v ≤ hi := by
  refine ⟨_, bandFlux_ok ld x0 f0 rest w (some m) f h1 h2, ?_⟩
  exact filter_between_min_max_masked lo hi m _ f hm (by rw [weightsOf_length ld x0 f0 rest w h1, h2])
    hg (weights_nonneg ld x0 f0 rest w hc) hs hf

/-- a constant spectrum gives the constant in every overlapping band, real weights -/
theorem bandflux_const (c : K) (ld : List K) (x0 f0 : K) (rest : List (K × K)) (w : List K)
    (h1 : ld.length = w.length) (hs : 0 < (weightsOf ld x0 f0 rest w).sum) :
    bandFlux ld ((x0, f0) :: rest) w none (List.replicate w.length c) = .ok c := by
  rw [bandFlux_ok ld x0 f0 rest w none _ h1 (by simp)]
  have := filter_const c (weightsOf ld x0 f0 rest w) hs
  rw [weightsOf_length ld x0 f0 rest w h1] at this
  simp only [this]

/-- **reversal invariance** (a statement about sums): the band mean does not depend on the order in which
the pixels are stored when weights and flux are reversed together -/
theorem filter_reverse_invariant (r f : List K) (h : f.length = r.length) :
    filterMean r.reverse f.reverse = filterMean r f := filterMean_reverse r f h

/-- the same for the weights the code computes: a spectrum stored red-to-blue (wavelengths, flux and the
fitted `|d log λ|` reversed along the pixel axis) gives the same band flux.  NB: the *real* fit of the
reversed solution is the fit of the backward instead of the forward differences, i.e. `ld` shifted by one
pixel - equal for a log-linear solution, different at the level of the curvature otherwise. -/
theorem bandflux_reverse_invariant (ld : List K) (curve : List (K × K)) (w f : List K)
    (h1 : ld.length = w.length) (h2 : f.length = w.length) :
    bandFlux ld.reverse curve w.reverse none f.reverse = bandFlux ld curve w none f := by
  cases curve with
  | nil => rfl
  | cons q rest =>
    obtain ⟨x0, f0⟩ := q
    rw [bandFlux_ok ld x0 f0 rest w none f h1 h2,
      bandFlux_ok ld.reverse x0 f0 rest w.reverse none f.reverse (by simp [h1]) (by simp [h2]),
      weightsOf_reverse ld x0 f0 rest w h1]
    simp only []
    rw [filterMean_reverse _ f (by rw [weightsOf_length ld x0 f0 rest w h1, h2])]

/-- **the mask interpolation commutes with reversing the pixel order** (linear interpolation between the
neighbouring unmasked pixels and constant ends are symmetric) -/
theorem maskInterp_reverse_invariant (m : List Bool) (y : List K) (h : m.length = y.length) :
    maskInterp m.reverse y.reverse = (maskInterp m y).reverse := maskInterp_reverse m y h

/-- **reversal invariance with a mask**: wavelengths, flux, mask and fitted `|d log λ|` reversed together give
the same band flux -/
theorem bandflux_reverse_invariant_masked (ld : List K) (curve : List (K × K)) (w f : List K) (m : List Bool)
    (hm : m.length = f.length) (h1 : ld.length = w.length) (h2 : f.length = w.length) :
    bandFlux ld.reverse curve w.reverse (some m.reverse) f.reverse = bandFlux ld curve w (some m) f := by
  cases curve with
  | nil => rfl
  | cons q rest =>
    obtain ⟨x0, f0⟩ := q
    rw [bandFlux_ok ld x0 f0 rest w (some m) f h1 h2,
      bandFlux_ok ld.reverse x0 f0 rest w.reverse (some m.reverse) f.reverse (by simp [h1]) (by simp [h2]),
      weightsOf_reverse ld x0 f0 rest w h1]
    simp only []
    rw [maskInterp_reverse m f hm,
      filterMean_reverse _ _ (by rw [maskInterp_length m f hm, weightsOf_length ld x0 f0 rest w h1, h2])]


/-! ### filter_thru end to end: the trace-set fit inside the model (extension round 2) -/

/-- **the end-to-end function is `bandFlux` on the fitted image the model computes**: whenever
`filter_thru` (model: wavelength image, flux, mask, curves, `toair` only - the cubic Legendre trace-set fit
of `d log10 λ` computed by the C13 model) returns, the fitted image `lds` exists, the result is
`filterThru` with that image, and entry `[t][b]` is `bandFlux lds[t] curves[b] newwave[t] mask[t] flux[t]` -
so every `filter_*` / `bandflux_*` theorem above applies to the whole function -/
theorem e2e_is_bandFlux (log10 : K → K) (solve : Array (Array K) → Array K → R (Array K)) (toair : Bool)
    (curves : List (List (K × K))) (wave : List (List K)) (masks : Option (List (List Bool)))
    (flux res : List (List K)) (h : filterThruE2E log10 solve toair curves wave masks flux = .ok res) :
    ∃ lds ms, fittedImg log10 solve (flux.headD []).length (toairImg toair wave) = .ok lds ∧
      maskRows flux.length masks = .ok ms ∧
      filterThru toair lds curves wave masks flux = .ok res ∧
      ∀ (t : ℕ) (row : List K), res[t]? = some row → ∀ (b : ℕ) (v : K), row[b]? = some v →
        ∃ ld w m f c, lds[t]? = some ld ∧ (toairImg toair wave)[t]? = some w ∧ ms[t]? = some m ∧
          flux[t]? = some f ∧ curves[b]? = some c ∧ bandFlux ld c w m f = .ok v := by
  obtain ⟨lds, h1, h2⟩ := e2e_ok_aux log10 solve toair curves wave masks flux res h
  have h2' := h2
  unfold filterThru at h2'
  obtain ⟨ms, hms, h3⟩ := C13.bind_ok h2'
  refine ⟨lds, ms, h1, hms, h2, ?_⟩
  intro t row ht b v hb
  obtain ⟨ld, w, m, f, e1, e2, e3, e4, hrow⟩ := filterRows_entry curves lds _ ms flux res h3 t row ht
  obtain ⟨c, e5, hband⟩ := filterThruRow_entry ld curves w m f row hrow b v hb
  exact ⟨ld, w, m, f, c, e1, e2, e3, e4, e5, hband⟩

/-- a failure of the fit is the failure of the function (nothing is defaulted) -/
theorem e2e_fit_error (log10 : K → K) (solve : Array (Array K) → Array K → R (Array K)) (toair : Bool)
    (curves : List (List (K × K))) (wave : List (List K)) (masks : Option (List (List Bool)))
    (flux : List (List K)) (e : String)
    (h : fittedImg log10 solve (flux.headD []).length (toairImg toair wave) = .error e) :
    filterThruE2E log10 solve toair curves wave masks flux = .error e := by
  unfold filterThruE2E
  rw [h]; rfl

/-- **pixel differences of a log-linear solution**: `log10 λ_i = c0 + c1·i` ⇒ `diffy` is the constant `c1` -/
theorem loglinear_diffy (log10 : K → K) (c0 c1 : K) (w : List K)
    (h : ∀ i (hi : i < w.length), log10 w[i] = c0 + c1 * (i : K)) :
    logDiffY log10 w = List.replicate (w.length - 1) c1 := by
  unfold logDiffY
  have := zipWith_tail_affine c0 c1 (w.map log10) 0 (by
    intro i hi
    simp only [List.length_map] at hi
    simp only [List.getElem_map, Nat.zero_add]
    exact h i hi)
  simpa using this

/-- **closed form for a constant fitted pixel size** (what the fit returns for a log-linear solution):
the band flux is `Σ resp(λ_i)·f_i / Σ resp(λ_i)`, `resp = np.interp(·, curve)` - independent of the
magnitude and the sign of the pixel size `c1 ≠ 0` (ascending or descending solution) -/
theorem bandflux_loglinear_closed (c1 x0 f0 : K) (rest : List (K × K)) (w : List K) (mask : Option (List Bool))
    (f : List K) (hc : c1 ≠ 0) (h2 : f.length = w.length) (hs : 0 < (w.map (npInterp x0 f0 rest)).sum) :
    bandFlux (List.replicate w.length c1) ((x0, f0) :: rest) w mask f
      = .ok ((List.zipWith (· * ·) (match mask with | none => f | some m => maskInterp m f)
               (w.map (npInterp x0 f0 rest))).sum / (w.map (npInterp x0 f0 rest)).sum) := by
  rw [bandFlux_ok _ x0 f0 rest w mask f (by simp) h2, weightsOf_const,
    filterMean_scale _ (abs_pos.mpr hc) _ _ hs]


/-- **for a log-linear wavelength solution the fitted pixel size is the constant `c1`**: if
`log10 λ[t][i] = c0 t + c1 t · i` on every trace (`nx ≥ 5` pixels), the image
`traceset2xy(xy2traceset(diffx, diffy, ncoeff=4, xmin=0, xmax=nx-1))[1]` the model computes is `c1 t` at all
`nx` pixels of trace `t`.  Uses C13's `funcFit_exact` (exact data are recovered), the contract of
`solve` and `fitPD` (the 4×4 Legendre normal matrix on ≥ 4 equally spaced pixels is positive definite -
proved, not assumed). -/
theorem fit_loglinear (log10 : K → K) (solve : Array (Array K) → Array K → R (Array K))
    (hsolve : C13.SolveContract solve) (nx : ℕ) (hnx : 5 ≤ nx) (nw : List (List K)) (c0 c1 : ℕ → K)
    (hlen : ∀ t (ht : t < nw.length), nw[t].length = nx)
    (hlog : ∀ t (ht : t < nw.length) i (hi : i < nw[t].length), log10 (nw[t][i]) = c0 t + c1 t * (i : K))
    (lds : List (List K)) (h : fittedImg log10 solve nx nw = .ok lds) :
    lds.length = nw.length ∧ ∀ t (ht : t < lds.length), lds[t] = List.replicate nx (c1 t) :=
  fittedImg_const log10 solve hsolve nx (by omega) nw c1
    (fun t ht => by rw [loglinear_diffy log10 (c0 t) (c1 t) nw[t] (hlog t ht), hlen t ht])
    (fitPD nx hnx) lds h

/-- **closed form of filter_thru for a log-linear solution, end to end**: with
`log10 λ[t][i] = c0 t + c1 t · i` (`c1 t ≠ 0`, ascending or descending; λ after the optional `toair`
conversion), whenever the function returns, entry `[t][b]` is the band flux for the constant pixel size and,
in every band whose curve the wavelengths overlap (`Σ resp(λ_i) > 0`), equals
`Σ resp(λ_i)·f_i / Σ resp(λ_i)` with `resp = np.interp(·, curve_b)` and `f` the (mask-interpolated) flux -
independent of the magnitude and sign of `c1`.  Nothing is supplied from outside the model but `log10` and
the linear solver with its contract. -/
theorem e2e_loglinear_closed (log10 : K → K) (solve : Array (Array K) → Array K → R (Array K))
    (hsolve : C13.SolveContract solve) (toair : Bool) (curves : List (List (K × K))) (wave : List (List K))
    (masks : Option (List (List Bool))) (flux res : List (List K)) (nx : ℕ) (hnx : 5 ≤ nx)
    (c0 c1 : ℕ → K) (hc1 : ∀ t, c1 t ≠ 0) (hnxf : (flux.headD []).length = nx)
    (hlen : ∀ t (ht : t < (toairImg toair wave).length), (toairImg toair wave)[t].length = nx)
    (hlog : ∀ t (ht : t < (toairImg toair wave).length) i (hi : i < (toairImg toair wave)[t].length),
      log10 ((toairImg toair wave)[t][i]) = c0 t + c1 t * (i : K))
    (h : filterThruE2E log10 solve toair curves wave masks flux = .ok res) :
    ∀ (t : ℕ) (row : List K), res[t]? = some row → ∀ (b : ℕ) (v : K), row[b]? = some v →
      ∃ w m f c, (toairImg toair wave)[t]? = some w ∧ flux[t]? = some f ∧ curves[b]? = some c ∧
        bandFlux (List.replicate w.length (c1 t)) c w m f = .ok v ∧
        ∀ x0 f0 rest, c = (x0, f0) :: rest → 0 < (w.map (npInterp x0 f0 rest)).sum →
          v = (List.zipWith (· * ·) (match m with | none => f | some mm => maskInterp mm f)
                (w.map (npInterp x0 f0 rest))).sum / (w.map (npInterp x0 f0 rest)).sum := by
  obtain ⟨lds, ms, h1, -, -, hent⟩ := e2e_is_bandFlux log10 solve toair curves wave masks flux res h
  rw [hnxf] at h1
  obtain ⟨-, hrows⟩ := fit_loglinear log10 solve hsolve nx hnx _ c0 c1 hlen hlog lds h1
  intro t row ht b v hb
  obtain ⟨ld, w, m, f, c, e1, e2, -, e4, e5, hband⟩ := hent t row ht b v hb
  have hld : ld = List.replicate nx (c1 t) := by
    obtain ⟨ht', rfl⟩ := List.getElem?_eq_some_iff.mp e1
    exact hrows t ht'
  have hwl : w.length = nx := by
    obtain ⟨ht', rfl⟩ := List.getElem?_eq_some_iff.mp e2
    exact hlen t ht'
  rw [hld, ← hwl] at hband
  refine ⟨w, m, f, c, e2, e4, e5, hband, ?_⟩
  intro x0 f0 rest hc hs
  subst hc
  by_cases hfl : f.length = w.length
  · rw [bandflux_loglinear_closed (c1 t) x0 f0 rest w m f (hc1 t) hfl hs] at hband
    exact (Except.ok.inj hband).symm
  · exfalso
    unfold bandFlux at hband
    obtain ⟨r, -, hb2⟩ := C13.bind_ok hband
    rw [if_neg hfl] at hb2
    cases hb2


/-- **numpy's pairwise summation gives the same band fluxes** as the left-to-right sums of `filterMean` in
exact arithmetic - for a supplied fitted image and end to end; so every theorem about `filterThru` /
`filterThruE2E` holds for the pairwise model that the harness compares with the real function to the last bits -/
theorem pairwise_same_value (log10 : K → K) (solve : Array (Array K) → Array K → R (Array K)) (toair : Bool)
    (lds : List (List K)) (curves : List (List (K × K))) (wave : List (List K))
    (masks : Option (List (List Bool))) (flux : List (List K)) :
    filterThruG filterMeanPw toair lds curves wave masks flux = filterThru toair lds curves wave masks flux ∧
    filterThruE2EPw log10 solve toair curves wave masks flux
      = filterThruE2E log10 solve toair curves wave masks flux := by
  refine ⟨filterThruG_filterMeanPw toair lds curves wave masks flux, ?_⟩
  unfold filterThruE2EPw filterThruE2E
  simp only [filterThruG_filterMeanPw]


/-- **the argument handling in front**: another filter prefix and a call with neither `waveimg` nor `wset` are refused
(`ValueError`); a wavelength image wins over a trace set (the trace set is not even looked at); a trace set alone is
the image `10 ** traceset2xy(wset)[1]` - so `wset` and image form of the same wavelengths give the same band fluxes,
and a trace set that cannot be evaluated fails the call -/
theorem top_dispatch (log10 pow10 : K → K) (solve : Array (Array K) → Array K → R (Array K)) (toair : Bool)
    (curves : List (List (K × K))) (masks : Option (List (List Bool))) (flux : List (List K)) :
    (∀ wave wset, filterThruTop log10 pow10 solve false toair curves wave wset masks flux = .error "ValueError") ∧
    filterThruTop log10 pow10 solve true toair curves none none masks flux = .error "ValueError" ∧
    (∀ w wset, filterThruTop log10 pow10 solve true toair curves (some w) wset masks flux
      = filterThruE2E log10 solve toair curves w masks flux) ∧
    (∀ (t : TSet K) p, t.xy none false = .ok p →
      filterThruTop log10 pow10 solve true toair curves none (some t) masks flux
        = filterThruE2E log10 solve toair curves (p.2.toList.map (fun r => r.toList.map pow10)) masks flux) ∧
    (∀ (t : TSet K) e, t.xy none false = .error e →
      filterThruTop log10 pow10 solve true toair curves none (some t) masks flux = .error e) := by
  refine ⟨fun _ _ => rfl, rfl, fun _ _ => rfl, ?_, ?_⟩
  · intro t p h
    simp only [filterThruTop, Bool.not_true, Bool.false_eq_true, if_false, h]
    rfl
  · intro t e h
    simp only [filterThruTop, Bool.not_true, Bool.false_eq_true, if_false, h]
    rfl

end

/-! ## non-vacuity: the hypotheses of the theorems are met by concrete non-trivial inputs -/
section
attribute [local instance] fieldScalar
attribute [local instance 5] Scalar.instOfNat Scalar.instOfScientific

/-- 5000 Å is in the domain of both round trips -/
example : (2000 : ℝ) ≤ 5000 ∧ (2000 : ℝ) ≤ vactoair1 (5000 : ℝ) := by
  refine ⟨by norm_num, ?_⟩
  have h : (2000 : ℝ) ≤ 5000 := by norm_num
  obtain ⟨f0, f1⟩ := fact_bounds h
  rw [vactoair1_eq, if_neg (by norm_num), le_div_iff₀ (by linarith)]
  linarith

/-- a `pow10`/`log10` pair with the contract of `ab_consistent` exists (ℝ, `10^x` and `log₁₀`) -/
example : ∃ pow10 log10 : ℝ → ℝ, (∀ x, log10 (pow10 x) = x) ∧
    (∀ x y, 0 < x → 0 < y → log10 (x * y) = log10 x + log10 y) ∧ (∀ x, 0 < pow10 x) := by
  have hL : Real.log 10 ≠ 0 := ne_of_gt (Real.log_pos (by norm_num))
  refine ⟨fun x => Real.exp (x * Real.log 10), fun y => Real.log y / Real.log 10, ?_, ?_, ?_⟩
  · intro x; simp only [Real.log_exp]; field_simp
  · intro x y hx hy; simp only [Real.log_mul (ne_of_gt hx) (ne_of_gt hy)]; ring
  · intro x; exact Real.exp_pos _

/-- weights that overlap the band, a flux row between 1 and 7, a mask with good and bad pixels -/
example : (0 : ℝ) < ([1, 2, 0] : List ℝ).sum ∧ (∀ w ∈ ([1, 2, 0] : List ℝ), 0 ≤ w) ∧
    (∀ x ∈ ([1, 7, 3] : List ℝ), (1 : ℝ) ≤ x ∧ x ≤ 7) ∧
    AgreeUnmasked [false, true, false] ([1, 5, 3] : List ℝ) [1, 7, 3] ∧ false ∈ [false, true, false] := by
  refine ⟨by norm_num, ?_, ?_, ?_, by simp⟩
  · intro w hw
    simp only [List.mem_cons, List.not_mem_nil, or_false] at hw
    rcases hw with rfl | rfl | rfl <;> norm_num
  · intro w hw
    simp only [List.mem_cons, List.not_mem_nil, or_false] at hw
    rcases hw with rfl | rfl | rfl <;> norm_num
  · exact .good 1 (.bad 5 7 (.good 3 .nil))

/-- the unmasked pixels of a masked row, as the masked theorems see them -/
example : goodsFrom 0 [false, true, false] ([1, 5, 3] : List ℝ) = [(0, 1), (2, 3)] := by
  rfl

/-- vactoair is not increasing across the 2000 Å guard (the reason `vactoair_strict_mono_above` starts at
2000 Å): `vactoair 2000 < vactoair 1999.9` -/
example : vactoair1 (2000 : ℝ) < vactoair1 (19999 / 10 : ℝ) := by
  rw [(C19.below_2000_identity (19999 / 10 : ℝ) (by norm_num)).2, vactoair1_eq, if_neg (by norm_num)]
  have h : (1 : ℝ) + 3 / 10000 ≤ fact (2000 : ℝ) := by
    show _ ≤ ciddor (sigma2 (2000 : ℝ))
    rw [sigma2_eq, ciddor_eq]; norm_num
  rw [div_lt_iff₀ (by linarith)]
  nlinarith

/-- a triangular curve that starts and ends at zero response, a wavelength row that crosses it (first and
last pixel outside), a fitted `d log λ` row of mixed sign: the weights are `[0, 1/2, 1, 1/2, 0]`, their sum is
positive (the hypothesis of `bandflux_between_min_max` / `bandflux_const`), and the hypotheses of
`weights_nonneg` hold -/
example : weightsOf ([-1, 1, 1, -1, 1] : List ℝ) 1 0 [(2, 1), (3, 0)] [1 / 2, 3 / 2, 2, 5 / 2, 7 / 2]
      = [0, 1 / 2, 1, 1 / 2, 0] ∧
    (∀ q ∈ ([(1, 0), (2, 1), (3, 0)] : List (ℝ × ℝ)), 0 ≤ q.2) := by
  constructor
  · simp only [weightsOf, List.zipWith_cons_cons, List.zipWith_nil_right, absS_eq, npInterp, interpGo, scalar_beq]
    norm_num
  · intro q hq
    simp only [List.mem_cons, List.not_mem_nil, or_false] at hq
    rcases hq with rfl | rfl | rfl <;> norm_num

/-- a row entirely outside that curve meets the hypothesis of `weights_zero_outside` / `bandflux_no_overlap` -/
example : ∀ x ∈ ([1 / 2, 7 / 2, 4] : List ℝ), x < 1 ∨ ∀ q ∈ ([(1, 0), (2, 1), (3, 0)] : List (ℝ × ℝ)), q.1 ≤ x := by
  intro x hx
  simp only [List.mem_cons, List.not_mem_nil, or_false] at hx
  rcases hx with rfl | rfl | rfl
  · left; norm_num
  · right; intro q hq
    simp only [List.mem_cons, List.not_mem_nil, or_false] at hq
    rcases hq with rfl | rfl | rfl <;> norm_num
  · right; intro q hq
    simp only [List.mem_cons, List.not_mem_nil, or_false] at hq
    rcases hq with rfl | rfl | rfl <;> norm_num


/-- the log-linear hypotheses of `fit_loglinear` / `e2e_loglinear_closed` are met by a concrete 5-pixel row
(`log10 := id`, λ = 0,1,2,3,4: c0 = 0, c1 = 1 ≠ 0), and the normal matrix of its fit is positive definite -/
example : (∀ i (hi : i < ([0, 1, 2, 3, 4] : List ℝ).length),
      (fun x : ℝ => x) ([0, 1, 2, 3, 4] : List ℝ)[i] = 0 + 1 * (i : ℝ)) ∧ (1 : ℝ) ≠ 0 ∧
    ([0, 1, 2, 3, 4] : List ℝ).length = 5 ∧ FitPD (K := ℝ) 5 := by
  refine ⟨?_, one_ne_zero, rfl, fitPD 5 (le_refl _)⟩
  intro i hi
  have hi' : i < 5 := hi
  have : i = 0 ∨ i = 1 ∨ i = 2 ∨ i = 3 ∨ i = 4 := by omega
  rcases this with rfl | rfl | rfl | rfl | rfl <;>
    simp only [List.getElem_cons_zero, List.getElem_cons_succ] <;> push_cast <;> ring

end
end PydlVerif.C19

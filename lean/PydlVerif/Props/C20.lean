/-
C20 property theorems: a program of the effect IR (Model/EnvIR.lean) that passes the
checker `restores` leaves the environment exactly as it found it, on every normal
and every exceptional path, for every oracle (fault schedule, branch choices, loop
counts, opaque values), every initial environment and every initial store.
Helper lemmas first, property theorems (listed in harness/props/c20.py) at the end.
-/
import PydlVerif.Model.EnvIR
namespace PydlVerif.C20
open PydlVerif.EnvIR

/-! ## helpers: concretisation of the abstract state -/

/-- `Gam orig a s`: the concrete state `s` is described by `a`, `orig` being the
environment on entry -/
def Gam (orig : Env) (a : Abs) (s : St) : Prop :=
  (∀ v, v ∉ a.dirty → s.env v = orig v) ∧
  (∀ x v, (x, v) ∈ a.holds → s.sto x = Val.ofOpt (orig v)) ∧
  (∀ x, x ∈ a.isNone → s.sto x = Val.none) ∧
  (∀ x, x ∈ a.isStr → (s.sto x).isStr = true)

def GamO (orig : Env) : Option Abs → St → Prop
  | none, _ => False
  | some a, s => Gam orig a s

theorem gam_congr {orig : Env} {a : Abs} {s s' : St} (he : s'.env = s.env) (hs : s'.sto = s.sto) :
    Gam orig a s → Gam orig a s' := by
  intro h; unfold Gam at *; rw [he, hs]; exact h

theorem gamO_congr {orig : Env} {a : Option Abs} {s s' : St} (he : s'.env = s.env) (hs : s'.sto = s.sto) :
    GamO orig a s → GamO orig a s' := by
  cases a with
  | none => exact id
  | some a => exact gam_congr he hs

theorem gam_next {orig : Env} {a : Abs} {s : St} (h : Gam orig a s) : Gam orig a s.next := gam_congr rfl rfl h

theorem gam_join_left {orig : Env} {a b : Abs} {s : St} (h : Gam orig a s) : Gam orig (a.join b) s := by
  obtain ⟨h1, h2, h3, h4⟩ := h
  refine ⟨?_, ?_, ?_, ?_⟩
  · intro v hv; apply h1; intro hc; apply hv; simp [Abs.join, hc]
  · intro x v hx; apply h2; simp [Abs.join] at hx; exact hx.1
  · intro x hx; apply h3; simp [Abs.join] at hx; exact hx.1
  · intro x hx; apply h4; simp [Abs.join] at hx; exact hx.1

theorem gam_join_right {orig : Env} {a b : Abs} {s : St} (h : Gam orig b s) : Gam orig (a.join b) s := by
  obtain ⟨h1, h2, h3, h4⟩ := h
  refine ⟨?_, ?_, ?_, ?_⟩
  · intro v hv; apply h1; intro hc; apply hv
    simp only [Abs.join, List.mem_append, List.mem_filter]
    by_cases hd : v ∈ a.dirty
    · exact Or.inl hd
    · right; simp [hc, hd]
  · intro x v hx; apply h2; simp [Abs.join] at hx; exact hx.2
  · intro x hx; apply h3; simp [Abs.join] at hx; exact hx.2
  · intro x hx; apply h4; simp [Abs.join] at hx; exact hx.2

theorem gamO_join_left {orig : Env} {x y : Option Abs} {s : St} (h : GamO orig x s) : GamO orig (joinO x y) s := by
  cases x with
  | none => exact absurd h id
  | some a =>
    cases y with
    | none => exact h
    | some b => exact gam_join_left h

theorem gamO_join_right {orig : Env} {x y : Option Abs} {s : St} (h : GamO orig y s) : GamO orig (joinO x y) s := by
  cases y with
  | none => exact absurd h id
  | some b =>
    cases x with
    | none => exact h
    | some a => exact gam_join_right h

theorem gam_forget {orig : Env} {a : Abs} {s : St} (x : Loc) (t : Val) (h : Gam orig a s) :
    Gam orig (a.forget x) { s with sto := s.sto.set x t } := by
  obtain ⟨h1, h2, h3, h4⟩ := h
  refine ⟨h1, ?_, ?_, ?_⟩
  · intro y v hy
    simp [Abs.forget] at hy
    simp [Store.set, hy.2]; exact h2 y v hy.1
  · intro y hy
    simp [Abs.forget] at hy
    simp [Store.set, hy.2]; exact h3 y hy.1
  · intro y hy
    simp [Abs.forget] at hy
    simp [Store.set, hy.2]; exact h4 y hy.1

theorem gam_bind {orig : Env} {a : Abs} {s : St} (x : Loc) (v : Var) (h : Gam orig a s) :
    Gam orig (a.bind x v) { s with sto := s.sto.set x (Val.ofOpt (s.env v)) } := by
  have hf := gam_forget x (Val.ofOpt (s.env v)) h
  unfold Abs.bind
  by_cases hd : a.dirty.contains v = true
  · rw [if_pos hd]; exact hf
  · rw [if_neg hd]
    obtain ⟨f1, f2, f3, f4⟩ := hf
    refine ⟨f1, ?_, f3, f4⟩
    intro y w hy
    simp only [List.mem_cons, Prod.mk.injEq] at hy
    rcases hy with ⟨e1, e2⟩ | hy
    · have : v ∉ a.dirty := by simpa using hd
      rw [e1, e2]; simp [Store.set]; rw [h.1 v this]
    · exact f2 y w hy

theorem gam_markDirty {orig : Env} {a : Abs} {s : St} (v : Var) (t : Option String) (h : Gam orig a s) :
    Gam orig (a.markDirty v) { s with env := s.env.set v t } := by
  obtain ⟨h1, h2, h3, h4⟩ := h
  unfold Abs.markDirty
  by_cases hd : a.dirty.contains v = true
  · rw [if_pos hd]
    refine ⟨?_, h2, h3, h4⟩
    intro w hw
    have : w ≠ v := by intro e; subst e; exact hw (by simpa using hd)
    simp [Env.set, this]; exact h1 w hw
  · rw [if_neg hd]
    refine ⟨?_, h2, h3, h4⟩
    intro w hw
    simp only [List.mem_cons, not_or] at hw
    simp [Env.set, hw.1]; exact h1 w hw.2

theorem gam_markClean {orig : Env} {a : Abs} {s : St} (v : Var) (t : Option String) (ht : t = orig v) (h : Gam orig a s) :
    Gam orig (a.markClean v) { s with env := s.env.set v t } := by
  obtain ⟨h1, h2, h3, h4⟩ := h
  refine ⟨?_, h2, h3, h4⟩
  intro w hw
  by_cases e : w = v
  · subst e; simp [Env.set, ht]
  · simp [Env.set, e]; apply h1; intro hc; apply hw; simp [Abs.markClean, hc, e]

theorem gam_origNone {orig : Env} {a : Abs} {s : St} (v : Var) (h : Gam orig a s) (hn : a.origNone v = true) :
    orig v = none := by
  simp only [Abs.origNone, List.any_eq_true, Bool.and_eq_true, decide_eq_true_eq] at hn
  obtain ⟨⟨x, w⟩, hm, rfl, hx⟩ := hn
  have hx' : x ∈ a.isNone := by simpa using hx
  have h1 := h.2.1 x w hm
  rw [h.2.2.1 x hx'] at h1
  cases ho : orig w with
  | none => rfl
  | some u => rw [ho] at h1; simp [Val.ofOpt] at h1

/-- `del` / `pop` on a state described by `a` -/
theorem gam_unset {orig : Env} {a : Abs} {s : St} (v : Var) (h : Gam orig a s) :
    Gam orig (if a.origNone v then a.markClean v else a.markDirty v) { s with env := s.env.set v none } := by
  by_cases hn : a.origNone v = true
  · rw [if_pos hn]; exact gam_markClean v none (gam_origNone v h hn).symm h
  · rw [if_neg hn]; exact gam_markDirty v none h

theorem gam_widen {orig : Env} {a : Abs} {s : St} (ws : List Var) (xs : List Loc) (h : Gam orig a s) :
    Gam orig (a.widen ws xs) s := by
  obtain ⟨h1, h2, h3, h4⟩ := h
  refine ⟨?_, ?_, ?_, ?_⟩
  · intro v hv; apply h1; intro hc; apply hv; simp [Abs.widen, hc]
  · intro x v hx; apply h2; simp [Abs.widen] at hx; exact hx.1
  · intro x hx; apply h3; simp [Abs.widen] at hx; exact hx.1
  · intro x hx; apply h4; simp [Abs.widen] at hx; exact hx.1

/-- the widened state is kept by anything that writes only `ws` and binds only `xs` -/
theorem gam_widen_frame {orig : Env} {a : Abs} {s s' : St} (ws : List Var) (xs : List Loc)
    (he : ∀ v, v ∉ ws → s'.env v = s.env v) (hs : ∀ x, x ∉ xs → s'.sto x = s.sto x)
    (h : Gam orig (a.widen ws xs) s) : Gam orig (a.widen ws xs) s' := by
  obtain ⟨h1, h2, h3, h4⟩ := h
  refine ⟨?_, ?_, ?_, ?_⟩
  · intro v hv
    have hw : v ∉ ws := by
      intro hc; apply hv
      simp only [Abs.widen, List.mem_append, List.mem_filter]
      by_cases hd : v ∈ a.dirty
      · exact Or.inl hd
      · right; simp [hc, hd]
    rw [he v hw]; exact h1 v hv
  · intro x v hx
    have hx' : x ∉ xs := by simp [Abs.widen] at hx; exact hx.2
    rw [hs x hx']; exact h2 x v hx
  · intro x hx
    have hx' : x ∉ xs := by simp [Abs.widen] at hx; exact hx.2
    rw [hs x hx']; exact h3 x hx
  · intro x hx
    have hx' : x ∉ xs := by simp [Abs.widen] at hx; exact hx.2
    rw [hs x hx']; exact h4 x hx

theorem gam_le {orig : Env} {a b : Abs} {s : St} (hle : a.le b = true) (h : Gam orig a s) : Gam orig b s := by
  simp only [Abs.le, Bool.and_eq_true, List.all_eq_true, List.contains_iff_mem] at hle
  obtain ⟨⟨⟨l1, l2⟩, l3⟩, l4⟩ := hle
  obtain ⟨h1, h2, h3, h4⟩ := h
  refine ⟨?_, ?_, ?_, ?_⟩
  · intro v hv; apply h1; intro hc; exact hv (l1 v hc)
  · intro x v hx; exact h2 x v (l2 (x, v) hx)
  · intro x hx; exact h3 x (l3 x hx)
  · intro x hx; exact h4 x (l4 x hx)

theorem gamO_le {orig : Env} {x : Option Abs} {b : Abs} {s : St} (hle : leO x b = true) (h : GamO orig x s) :
    Gam orig b s := by
  cases x with
  | none => exact absurd h id
  | some a => exact gam_le hle h

/-! ## helpers: frame properties of the semantics -/

theorem iter_frame {β} (f : St → St × Outcome) (g : St → β) (h : ∀ s, g (f s).1 = g s) :
    ∀ n s, g (iter f n s).1 = g s := by
  intro n
  induction n with
  | zero => intro s; rfl
  | succ k ih =>
    intro s
    simp only [iter]
    have hs := h s
    split
    · next s' heq => rw [ih s']; rw [heq] at hs; exact hs
    · next r _ => exact hs

theorem run_env_frame (o : Oracle) : ∀ (p : Stmt) (s : St) (v : Var),
    v ∉ writes p → (run o p s).1.env v = s.env v := by
  intro p
  induction p with
  | skip | fault | raise | ret | need | save | setNone | kill => intro s v _; simp [run, St.next]
  | load x w => intro s v _; simp only [run]; split <;> rfl
  | del w =>
    intro s v hv; simp only [run]; simp [writes] at hv
    split <;> simp [Env.set, hv]
  | pop w => intro s v hv; simp [writes] at hv; simp [run, Env.set, hv]
  | setExpr w i =>
    intro s v hv; simp only [run]; simp [writes] at hv
    split <;> simp [Env.set, hv, St.next]
  | setFrom w x =>
    intro s v hv; simp only [run]; simp [writes] at hv
    split <;> simp [Env.set, hv]
  | seq a b iha ihb =>
    intro s v hv; simp only [run]; simp [writes] at hv
    have h1 := iha s v hv.1
    split
    · next s' heq => rw [ihb s' v hv.2]; rw [heq] at h1; exact h1
    · exact h1
  | choice i a b iha ihb =>
    intro s v hv; simp only [run]; simp [writes] at hv
    split
    · exact iha s.next v hv.1
    · exact ihb s.next v hv.2
  | ifNone x a b iha ihb =>
    intro s v hv; simp only [run]; simp [writes] at hv
    split
    · exact iha s v hv.1
    · exact ihb s v hv.2
  | ifSet w a b iha ihb =>
    intro s v hv; simp only [run]; simp [writes] at hv
    split
    · exact iha s v hv.1
    · exact ihb s v hv.2
  | loop i a iha =>
    intro s v hv; simp only [run]; simp [writes] at hv
    exact iter_frame (run o a) (fun t => t.env v) (fun t => iha t v hv) _ s.next
  | tryFinally a b iha ihb =>
    intro s v hv; simp only [run]; simp [writes] at hv
    have h1 := iha s v hv.1
    have h2 := ihb (run o a s).1 v hv.2
    rw [h1] at h2
    rcases hra : run o a s with ⟨s', oa⟩
    rw [hra] at h2
    rcases hrb : run o b s' with ⟨s'', ob⟩
    rw [hrb] at h2
    cases ob <;> exact h2
  | tryExcept i a b iha ihb =>
    intro s v hv; simp only [run]; simp [writes] at hv
    have h1 := iha s v hv.1
    split
    · next s' heq =>
      rw [heq] at h1
      split
      · rw [ihb s'.next v hv.2]; exact h1
      · exact h1
    · exact h1
  | scope a iha =>
    intro s v hv; simp only [run]; simp [writes] at hv
    have h1 := iha s v hv
    split
    · next s' heq => rw [heq] at h1; exact h1
    · exact h1

theorem run_sto_frame (o : Oracle) : ∀ (p : Stmt) (s : St) (x : Loc),
    x ∉ assigns p → (run o p s).1.sto x = s.sto x := by
  intro p
  induction p with
  | skip | fault | raise | ret | need | pop => intro s x _; simp [run, St.next]
  | del | setFrom => intro s x _; simp only [run]; split <;> rfl
  | setExpr => intro s x _; simp only [run]; split <;> rfl
  | save y w => intro s x hx; simp [assigns] at hx; simp [run, Store.set, hx]
  | setNone y => intro s x hx; simp [assigns] at hx; simp [run, Store.set, hx]
  | kill y i => intro s x hx; simp [assigns] at hx; simp [run, Store.set, hx]
  | load y w =>
    intro s x hx; simp only [run]; simp [assigns] at hx
    split <;> simp [Store.set, hx]
  | seq a b iha ihb =>
    intro s v hv; simp only [run]; simp [assigns] at hv
    have h1 := iha s v hv.1
    split
    · next s' heq => rw [ihb s' v hv.2]; rw [heq] at h1; exact h1
    · exact h1
  | choice i a b iha ihb =>
    intro s v hv; simp only [run]; simp [assigns] at hv
    split
    · exact iha s.next v hv.1
    · exact ihb s.next v hv.2
  | ifNone x a b iha ihb =>
    intro s v hv; simp only [run]; simp [assigns] at hv
    split
    · exact iha s v hv.1
    · exact ihb s v hv.2
  | ifSet w a b iha ihb =>
    intro s v hv; simp only [run]; simp [assigns] at hv
    split
    · exact iha s v hv.1
    · exact ihb s v hv.2
  | loop i a iha =>
    intro s v hv; simp only [run]; simp [assigns] at hv
    exact iter_frame (run o a) (fun t => t.sto v) (fun t => iha t v hv) _ s.next
  | tryFinally a b iha ihb =>
    intro s v hv; simp only [run]; simp [assigns] at hv
    have h1 := iha s v hv.1
    have h2 := ihb (run o a s).1 v hv.2
    rw [h1] at h2
    rcases hra : run o a s with ⟨s', oa⟩
    rw [hra] at h2
    rcases hrb : run o b s' with ⟨s'', ob⟩
    rw [hrb] at h2
    cases ob <;> exact h2
  | tryExcept i a b iha ihb =>
    intro s v hv; simp only [run]; simp [assigns] at hv
    have h1 := iha s v hv.1
    split
    · next s' heq =>
      rw [heq] at h1
      split
      · rw [ihb s'.next v hv.2]; exact h1
      · exact h1
    · exact h1
  | scope a iha =>
    intro s v hv; simp only [run]; simp [assigns] at hv
    have h1 := iha s v hv
    split
    · next s' heq => rw [heq] at h1; exact h1
    · exact h1

/-- invariant / exit reasoning for `iter` -/
theorem iter_inv (f : St → St × Outcome) (I : St → Prop) (E : Outcome → St → Prop)
    (h : ∀ s, I s → ((f s).2 = .ok → I (f s).1) ∧ ((f s).2 ≠ .ok → E (f s).2 (f s).1)) :
    ∀ n s, I s → ((iter f n s).2 = .ok → I (iter f n s).1) ∧
      ((iter f n s).2 ≠ .ok → E (iter f n s).2 (iter f n s).1) := by
  intro n
  induction n with
  | zero => intro s hs; simp [iter, hs]
  | succ k ih =>
    intro s hs
    simp only [iter]
    have hf := h s hs
    split
    · next s' heq => rw [heq] at hf; exact ih s' (hf.1 rfl)
    · next r hne =>
      have : (f s).2 ≠ .ok := by
        intro e; exact hne (f s).1 (by rw [← e])
      exact ⟨fun e => absurd e this, fun _ => hf.2 this⟩

/-! ## soundness of the abstract interpreter -/

theorem sel_join_left {orig : Env} {x y : Res} {oc : Outcome} {s : St}
    (h : GamO orig (x.sel oc) s) : GamO orig ((x.join y).sel oc) s := by
  cases oc <;> exact gamO_join_left h

theorem sel_join_right {orig : Env} {x y : Res} {oc : Outcome} {s : St}
    (h : GamO orig (y.sel oc) s) : GamO orig ((x.join y).sel oc) s := by
  cases oc <;> exact gamO_join_right h

/-- outcome of `try: (ends with oa) finally: (ends with ob)` -/
def fin (oa : Outcome) : Outcome → Outcome
  | .ok => oa
  | ob => ob

/-- the finaliser's contribution: it ran from a state reached with outcome `oa` and ended with `ob` -/
theorem sel_after {orig : Env} {q : Res} {oa ob : Outcome} {s : St}
    (h : GamO orig (q.sel ob) s) :
    GamO orig ((q.after oa).sel (fin oa ob)) s := by
  cases oa <;> cases ob <;>
    first | exact h | exact gamO_join_left h | exact gamO_join_right h

/-- what `ana` promises about one run: the component of its result that belongs to the outcome of
the run describes the state reached -/
def Sound (o : Oracle) (orig : Env) (p : Stmt) (a : Abs) (s : St) : Prop :=
  GamO orig ((ana p a).sel (run o p s).2) (run o p s).1

theorem sound_onO {o : Oracle} {orig : Env} {p : Stmt} (ih : ∀ a s, Gam orig a s → Sound o orig p a s)
    {x : Option Abs} {s : St} (h : GamO orig x s) :
    GamO orig ((onO (ana p) x).sel (run o p s).2) (run o p s).1 := by
  cases x with
  | none => exact absurd h id
  | some a => exact ih a s h

theorem ana_sound (o : Oracle) (orig : Env) : ∀ (p : Stmt) (a : Abs) (s : St),
    Gam orig a s → Sound o orig p a s := by
  intro p
  induction p with
  | skip => intro a s h; exact h
  | fault i =>
    intro a s h
    simp only [Sound, run, ana]
    split <;> exact gam_next h
  | raise => intro a s h; exact h
  | ret => intro a s h; exact h
  | need v =>
    intro a s h
    simp only [Sound, run, ana]
    split <;> exact h
  | save x v => intro a s h; exact gam_bind x v h
  | load x v =>
    intro a s h
    simp only [Sound, run, ana]
    split
    · next t ht =>
      have hb : Gam orig (a.bind x v) { s with sto := s.sto.set x (.str t) } := by
        have hb0 := gam_bind x v h
        rw [ht] at hb0
        exact hb0
      obtain ⟨b1, b2, b3, b4⟩ := hb
      refine ⟨b1, b2, b3, ?_⟩
      intro y hy
      simp only [List.mem_cons] at hy
      rcases hy with rfl | hy
      · simp [Store.set, Val.isStr]
      · exact b4 y hy
    · exact h
  | setNone x =>
    intro a s h
    simp only [Sound, run, ana]
    obtain ⟨b1, b2, b3, b4⟩ := gam_forget x Val.none h
    refine ⟨b1, b2, ?_, b4⟩
    intro y hy
    simp only [List.mem_cons] at hy
    rcases hy with rfl | hy
    · simp [Store.set]
    · exact b3 y hy
  | kill x i => intro a s h; exact gam_forget x _ (gam_next h)
  | del v =>
    intro a s h
    simp only [Sound, run, ana]
    cases hv : s.env v with
    | some t => exact gam_unset v h
    | none => exact h
  | pop v => intro a s h; exact gam_unset v h
  | setExpr v i =>
    intro a s h
    simp only [Sound, run, ana]
    split
    · exact gam_markDirty v _ (gam_next h)
    · exact gam_next h
  | setFrom v x =>
    intro a s h
    simp only [Sound, run, ana]
    have hraise : (s.sto x).isStr ≠ true → GamO orig (if a.isStr.contains x = true then none else some a) s := by
      intro hne
      by_cases hc : a.isStr.contains x = true
      · have hm : x ∈ a.isStr := by simpa using hc
        have hs := h.2.2.2 x hm
        exact absurd hs hne
      · rw [if_neg hc]; exact h
    cases hv : s.sto x with
    | str t =>
      by_cases hc : a.holds.contains (x, v) = true
      · have hm : (x, v) ∈ a.holds := by simpa using hc
        have h1 := h.2.1 x v hm
        rw [hv] at h1
        have hov : some t = orig v := by
          cases ho : orig v with
          | none => rw [ho] at h1; simp [Val.ofOpt] at h1
          | some u => rw [ho] at h1; simp [Val.ofOpt] at h1; rw [h1]
        have := gam_markClean v (some t) hov h
        simp only [Res.sel, GamO, hc, if_true]; exact this
      · have := gam_markDirty v (some t) h
        simp only [Res.sel, GamO, hc]; exact this
    | none => exact hraise (by rw [hv]; simp [Val.isStr])
    | other => exact hraise (by rw [hv]; simp [Val.isStr])
  | seq p q ihp ihq =>
    intro a s h
    have hp := ihp a s h
    simp only [Sound, run, ana] at hp ⊢
    rcases hr : run o p s with ⟨s', oc⟩
    rw [hr] at hp
    cases oc with
    | ok => exact sel_join_right (sound_onO ihq hp)
    | raised => exact sel_join_left hp
    | ret => exact sel_join_left hp
  | choice i p q ihp ihq =>
    intro a s h
    simp only [Sound, run, ana]
    split
    · exact sel_join_left (ihp a s.next (gam_next h))
    · exact sel_join_right (ihq a s.next (gam_next h))
  | ifNone x p q ihp ihq =>
    intro a s h
    simp only [Sound, run, ana]
    by_cases hx : s.sto x = Val.none
    · rw [if_pos hx]
      have h' : Gam orig { a with isNone := x :: a.isNone } s := by
        refine ⟨h.1, h.2.1, ?_, h.2.2.2⟩
        intro y hy
        simp only [List.mem_cons] at hy
        rcases hy with rfl | hy
        · exact hx
        · exact h.2.2.1 y hy
      exact sel_join_left (ihp _ s h')
    · rw [if_neg hx]
      have h' : Gam orig (if a.holds.any (fun p => p.1 = x) then { a with isStr := x :: a.isStr } else a) s := by
        by_cases hh : a.holds.any (fun p => p.1 = x) = true
        · rw [if_pos hh]
          refine ⟨h.1, h.2.1, h.2.2.1, ?_⟩
          intro y hy
          simp only [List.mem_cons] at hy
          rcases hy with rfl | hy
          · simp only [List.any_eq_true, decide_eq_true_eq] at hh
            obtain ⟨⟨x', w⟩, hm, hxw⟩ := hh
            simp only at hxw
            subst hxw
            have h1 := h.2.1 x' w hm
            cases ho : orig w with
            | none => rw [ho] at h1; exact absurd h1 hx
            | some u => rw [ho] at h1; rw [h1]; rfl
          · exact h.2.2.2 y hy
        · rw [if_neg hh]; exact h
      exact sel_join_right (ihq _ s h')
  | ifSet v p q ihp ihq =>
    intro a s h
    simp only [Sound, run, ana]
    split
    · exact sel_join_left (ihp a s h)
    · exact sel_join_right (ihq a s h)
  | loop i body ih =>
    intro a s h
    simp only [Sound, run, ana]
    by_cases hle : leO (ana body a).n a = true
    · rw [if_pos hle]
      have key := iter_inv (run o body) (fun t => Gam orig a t)
        (fun oc t => GamO orig ((ana body a).sel oc) t)
        (by
          intro t ht
          have hb := ih a t ht
          simp only [Sound] at hb
          refine ⟨fun e => ?_, fun _ => hb⟩
          rw [e] at hb
          exact gamO_le hle hb)
        (o.iters s.tick i) s.next (gam_next h)
      rcases hr : iter (run o body) (o.iters s.tick i) s.next with ⟨s', oc⟩
      rw [hr] at key
      cases oc with
      | ok => exact key.1 rfl
      | raised => exact key.2 (by simp)
      | ret => exact key.2 (by simp)
    · rw [if_neg hle]
      have h0 : Gam orig (a.widen (writes body) (assigns body)) s.next :=
        gam_widen _ _ (gam_next h)
      have key := iter_inv (run o body)
        (fun t => Gam orig (a.widen (writes body) (assigns body)) t)
        (fun oc t => GamO orig ((ana body (a.widen (writes body) (assigns body))).sel oc) t)
        (by
          intro t ht
          refine ⟨fun _ => ?_, fun _ => ih _ t ht⟩
          exact gam_widen_frame _ _ (fun v hv => run_env_frame o body t v hv)
            (fun x hx => run_sto_frame o body t x hx) ht)
        (o.iters s.tick i) s.next h0
      rcases hr : iter (run o body) (o.iters s.tick i) s.next with ⟨s', oc⟩
      rw [hr] at key
      cases oc with
      | ok => exact key.1 rfl
      | raised => exact key.2 (by simp)
      | ret => exact key.2 (by simp)
  | tryFinally p q ihp ihq =>
    intro a s h
    have hp := ihp a s h
    simp only [Sound, run, ana] at hp ⊢
    rcases hr : run o p s with ⟨s', oa⟩
    rw [hr] at hp
    have hq := sound_onO ihq hp
    rcases hrq : run o q s' with ⟨s'', ob⟩
    rw [hrq] at hq
    have key := sel_after (oa := oa) hq
    cases oa <;> cases ob <;>
      first
      | exact sel_join_left key
      | exact sel_join_right (sel_join_left key)
      | exact sel_join_right (sel_join_right key)
  | tryExcept i p hh ihp ihh =>
    intro a s h
    have hp := ihp a s h
    simp only [Sound, run, ana] at hp ⊢
    rcases hr : run o p s with ⟨s', oc⟩
    rw [hr] at hp
    cases oc with
    | ok => exact sel_join_left hp
    | ret => exact sel_join_left hp
    | raised =>
      simp only []
      split
      · exact sel_join_right (sound_onO ihh (gamO_congr (s := s') (s' := s'.next) rfl rfl hp))
      · exact sel_join_left (gamO_congr (s := s') (s' := s'.next) rfl rfl hp)
  | scope p ihp =>
    intro a s h
    have hp := ihp a s h
    simp only [Sound, run, ana] at hp ⊢
    rcases hr : run o p s with ⟨s', oc⟩
    rw [hr] at hp
    cases oc with
    | ok => exact gamO_join_left hp
    | ret => exact gamO_join_right hp
    | raised => exact hp

theorem gamO_clean {orig : Env} {x : Option Abs} {s : St} (h : GamO orig x s) (hc : cleanO x = true) : s.env = orig := by
  cases x with
  | none => exact absurd h id
  | some a =>
    funext v
    apply h.1 v
    simp [cleanO, List.isEmpty_iff] at hc
    simp [hc]

/-! ## property theorems -/

/-- **restores_sound** - a program accepted by the checker leaves the environment as
it found it: for every oracle (which points raise, which branches are taken, loop
counts, opaque values), every initial environment and store, on normal return, on
`return` inside `try`, and on every exceptional path. -/
theorem restores_sound (p : Stmt) (vs : List Var) (h : restores p vs = true) :
    ∀ (o : Oracle) (s : St), (run o p s).1.env = s.env := by
  intro o s
  simp only [restores, Bool.and_eq_true] at h
  obtain ⟨⟨⟨_, hn⟩, he⟩, hr⟩ := h
  have h0 : Gam s.env Abs.init s :=
    ⟨fun _ _ => rfl, fun _ _ hx => by simp [Abs.init] at hx, fun _ hx => by simp [Abs.init] at hx,
     fun _ hx => by simp [Abs.init] at hx⟩
  have hs := ana_sound o s.env p Abs.init s h0
  simp only [Sound] at hs
  cases hoc : (run o p s).2 <;> rw [hoc] at hs
  · exact gamO_clean hs hn
  · exact gamO_clean hs he
  · exact gamO_clean hs hr

/-- **other_vars_untouched** - a variable that the program does not write syntactically
is never changed, not even temporarily visible at exit, whatever happens. -/
theorem other_vars_untouched (p : Stmt) (o : Oracle) (s : St) (v : Var) (h : v ∉ writes p) :
    (run o p s).1.env v = s.env v := run_env_frame o p s v h

/-- **restores_only_touches** - an accepted program writes no variable outside the
declared list `vs` (so, with `other_vars_untouched`, variables outside `vs` are
never created, changed or removed at any moment of the run that ends the call). -/
theorem restores_only_touches (p : Stmt) (vs : List Var) (h : restores p vs = true) :
    ∀ v, v ∈ writes p → v ∈ vs := by
  intro v hv
  simp only [restores, Bool.and_eq_true, List.all_eq_true] at h
  simpa using h.1.1.1 v hv

/-! ## non-vacuity: the checker accepts a guarded program, rejects the unguarded one,
and the rejected one really leaks under a concrete fault schedule -/

/-- save; delete; try: (anything that may fail) finally: put back -/
def guarded : Stmt :=
  .seq (.tryExcept 0 (.load "x" "A") .raise)
  (.seq (.del "A")
  (.tryFinally (.seq (.fault 1) (.seq (.need "B") (.fault 2))) (.setFrom "A" "x")))

def unguarded : Stmt :=
  .seq (.tryExcept 0 (.load "x" "A") .raise)
  (.seq (.del "A") (.seq (.fault 1) (.setFrom "A" "x")))

/-- two variables saved with `.get`, overwritten, restored as value or as absence -/
def guarded2 : Stmt :=
  .seq (.save "a" "A") (.seq (.save "b" "B")
  (.tryFinally (.seq (.fault 1) (.seq (.setExpr "A" 2) (.seq (.setExpr "B" 3) (.seq (.fault 4) .ret))))
    (.seq (.ifNone "a" (.pop "A") (.setFrom "A" "a")) (.ifNone "b" (.pop "B") (.setFrom "B" "b")))))

/-- a loop whose body sets and puts back the variable in every round -/
def guardedLoop : Stmt :=
  .seq (.save "a" "A")
  (.loop 0 (.tryFinally (.seq (.setExpr "A" 1) (.fault 2)) (.ifNone "a" (.pop "A") (.setFrom "A" "a"))))

example : restores guardedLoop ["A"] = true := by decide
example : restores guarded ["A"] = true := by decide
example : restores guarded2 ["A", "B"] = true := by decide
example : restores unguarded ["A"] = false := by decide
example : restores guarded [] = false := by decide

/-! ## the idioms added in the round-5 extension are read into the existing constructors; these lemmas state
what the chosen IR terms do, for all states (they are the specification the translator relies on) -/

/-- `x = os.environ.pop(v)` is read as `load x v; del v` (`MutableMapping.pop`: `value = self[v]`, then `del self[v]`):
when `v` is set, `x` gets its value and `v` is removed -/
theorem pop_idiom_set (o : Oracle) (x : Loc) (v : Var) (s : St) (t : String) (h : s.env v = some t) :
    run o (.seq (.load x v) (.del v)) s =
      ({ s with sto := s.sto.set x (.str t), env := s.env.set v none }, .ok) := by
  simp [run, h]

/-- ... and when `v` is unset the lookup raises (KeyError) and nothing at all has changed -/
theorem pop_idiom_unset (o : Oracle) (x : Loc) (v : Var) (s : St) (h : s.env v = none) :
    run o (.seq (.load x v) (.del v)) s = (s, .raised) := by
  simp [run, h]

/-- `x = os.environ.pop(v, None)` is read as `save x v; pop v`: never raises, `x` is the old value or None,
`v` is unset afterwards -/
theorem pop_default_idiom (o : Oracle) (x : Loc) (v : Var) (s : St) :
    run o (.seq (.save x v) (.pop v)) s =
      ({ s with sto := s.sto.set x (Val.ofOpt (s.env v)), env := s.env.set v none }, .ok) := by
  simp [run]

/-- `os.environ.setdefault(v, x)` is read as `ifSet v skip (setFrom v x)`: a variable that is set is left alone -/
theorem setdefault_idiom_set (o : Oracle) (x : Loc) (v : Var) (s : St) (h : (s.env v).isSome = true) :
    run o (.ifSet v .skip (.setFrom v x)) s = (s, .ok) := by
  simp [run, h]

/-- ... and a variable that is unset gets the (string) value of `x` -/
theorem setdefault_idiom_unset (o : Oracle) (x : Loc) (v : Var) (s : St) (t : String)
    (h : s.env v = none) (hx : s.sto x = .str t) :
    run o (.ifSet v .skip (.setFrom v x)) s = ({ s with env := s.env.set v (some t) }, .ok) := by
  simp [run, h, hx]

/-- `calib = os.environ.pop('A')` under `except KeyError: raise ...`, the work, `finally: os.environ['A'] = calib` -/
def guardedPop : Stmt :=
  .seq (.tryExcept 0 (.seq (.load "x" "A") (.del "A")) (.seq (.fault 9) .raise))
  (.tryFinally (.seq (.fault 1) (.seq (.need "B") (.fault 2))) (.setFrom "A" "x"))

/-- the same without the `finally` -/
def unguardedPop : Stmt :=
  .seq (.tryExcept 0 (.seq (.load "x" "A") (.del "A")) (.seq (.fault 9) .raise))
  (.seq (.fault 1) (.setFrom "A" "x"))

/-- snapshot `{n: os.environ.get(n) for n in ('A', 'B')}`, `setdefault` / `update`, restore loop over `.items()` -/
def guardedSnapshot : Stmt :=
  .seq (.save "s1" "A") (.seq (.save "s2" "B")
  (.tryFinally (.seq (.fault 1) (.seq (.ifSet "A" .skip (.setExpr "A" 2)) (.seq (.setExpr "B" 3) (.fault 4))))
    (.seq (.ifNone "s1" (.pop "A") (.setFrom "A" "s1")) (.ifNone "s2" (.pop "B") (.setFrom "B" "s2")))))

/-- the restore loop forgets to remove a variable that was unset -/
def leakySnapshot : Stmt :=
  .seq (.save "s1" "A") (.seq (.save "s2" "B")
  (.tryFinally (.seq (.fault 1) (.seq (.ifSet "A" .skip (.setExpr "A" 2)) (.seq (.setExpr "B" 3) (.fault 4))))
    (.seq (.ifNone "s1" .skip (.setFrom "A" "s1")) (.ifNone "s2" .skip (.setFrom "B" "s2")))))

example : restores guardedPop ["A"] = true := by decide
example : restores unguardedPop ["A"] = false := by decide
example : restores guardedSnapshot ["A", "B"] = true := by decide
example : restores leakySnapshot ["A", "B"] = false := by decide

def envA : Env := fun v => if v = "A" then some "/calib" else none
def failAt1 : Oracle := ⟨fun _ i => i == 1, fun _ _ => 0, fun _ _ => .other⟩

example : (run failAt1 unguarded ⟨envA, fun _ => .other, 0⟩).1.env "A" = none := by decide
example : (run failAt1 unguarded ⟨envA, fun _ => .other, 0⟩).2 = .raised := by decide
example : (run failAt1 guarded ⟨envA, fun _ => .other, 0⟩).1.env "A" = some "/calib" := by decide
example : (run failAt1 guarded ⟨envA, fun _ => .other, 0⟩).2 = .raised := by decide
example : (run failAt1 unguardedPop ⟨envA, fun _ => .other, 0⟩).1.env "A" = none := by decide
example : (run failAt1 guardedPop ⟨envA, fun _ => .other, 0⟩).1.env "A" = some "/calib" := by decide

/-! ## extension round 2: compositionality, monotonicity in the declared set, exactness on a fragment -/

/-- the property statement for one program, semantically: whatever the oracle, whatever the initial
state, the run ends with the environment it started with -/
def Restoring (p : Stmt) : Prop := ∀ (o : Oracle) (s : St), (run o p s).1.env = s.env

/-- an accepted program is restoring (`restores_sound` in this vocabulary) -/
theorem restores_restoring {p : Stmt} {vs : List Var} (h : restores p vs = true) : Restoring p :=
  restores_sound p vs h

/-- a program that writes no variable at all is restoring (env-neutral) -/
theorem neutral_restoring {p : Stmt} (h : writes p = []) : Restoring p := by
  intro o s
  funext v
  exact run_env_frame o p s v (by rw [h]; exact List.not_mem_nil)

/-- **restoring_seq** - the sequence of two restoring programs is restoring -/
theorem restoring_seq {p q : Stmt} (hp : Restoring p) (hq : Restoring q) : Restoring (.seq p q) := by
  intro o s
  have h1 := hp o s
  simp only [run]
  split
  · next s' heq => rw [heq] at h1; rw [hq o s']; exact h1
  · next r _ => exact h1

/-- **restoring_tryFinally** - a restoring block under a restoring (in particular: env-neutral)
finaliser is restoring, whichever way the block and the finaliser are left -/
theorem restoring_tryFinally {a b : Stmt} (ha : Restoring a) (hb : Restoring b) :
    Restoring (.tryFinally a b) := by
  intro o s
  have h1 := ha o s
  have h2 := hb o (run o a s).1
  simp only [run]
  split
  · next s'' heq => rw [heq] at h2; rw [h2]; exact h1
  · next r _ => rw [h2]; exact h1

theorem restoring_tryExcept {i : Nat} {a h : Stmt} (ha : Restoring a) (hh : Restoring h) :
    Restoring (.tryExcept i a h) := by
  intro o s
  have h1 := ha o s
  simp only [run]
  split
  · next s' heq =>
    rw [heq] at h1
    split
    · rw [hh o s'.next]; exact h1
    · exact h1
  · next r _ => exact h1

theorem restoring_choice {i : Nat} {a b : Stmt} (ha : Restoring a) (hb : Restoring b) :
    Restoring (.choice i a b) := by
  intro o s
  simp only [run]
  split
  · exact ha o s.next
  · exact hb o s.next

theorem restoring_ifNone {x : Loc} {a b : Stmt} (ha : Restoring a) (hb : Restoring b) :
    Restoring (.ifNone x a b) := by
  intro o s
  simp only [run]
  split
  · exact ha o s
  · exact hb o s

theorem restoring_ifSet {v : Var} {a b : Stmt} (ha : Restoring a) (hb : Restoring b) :
    Restoring (.ifSet v a b) := by
  intro o s
  simp only [run]
  split
  · exact ha o s
  · exact hb o s

theorem restoring_loop {i : Nat} {a : Stmt} (ha : Restoring a) : Restoring (.loop i a) := by
  intro o s
  simp only [run]
  exact iter_frame (run o a) (fun t => t.env) (fun t => ha o t) _ s.next

theorem restoring_scope {a : Stmt} (ha : Restoring a) : Restoring (.scope a) := by
  intro o s
  have h1 := ha o s
  simp only [run]
  split
  · next s' heq => rw [heq] at h1; exact h1
  · next r _ => exact h1

/-- **restores_seq** - two programs accepted by the checker (each for its own declared set), run one
after the other - e.g. two calls of the entry points in one process - leave the environment as the
first one found it.  (Semantic composition: the checker need not accept the sequence itself.) -/
theorem restores_seq (p q : Stmt) (vs ws : List Var) (hp : restores p vs = true) (hq : restores q ws = true) :
    ∀ (o : Oracle) (s : St), (run o (.seq p q) s).1.env = s.env :=
  restoring_seq (restores_restoring hp) (restores_restoring hq)

/-- **restores_tryFinally_neutral** - an accepted block under a finaliser that writes no variable -/
theorem restores_tryFinally_neutral (p f : Stmt) (vs : List Var) (hp : restores p vs = true)
    (hf : writes f = []) : ∀ (o : Oracle) (s : St), (run o (.tryFinally p f) s).1.env = s.env :=
  restoring_tryFinally (restores_restoring hp) (neutral_restoring hf)

/-- **restores_mono** - the checker is monotone in the declared set -/
theorem restores_mono (p : Stmt) (vs vs' : List Var) (hsub : ∀ v, v ∈ vs → v ∈ vs')
    (h : restores p vs = true) : restores p vs' = true := by
  simp only [restores, Bool.and_eq_true, List.all_eq_true] at h ⊢
  obtain ⟨⟨⟨hw, hn⟩, he⟩, hr⟩ := h
  refine ⟨⟨⟨fun v hv => ?_, hn⟩, he⟩, hr⟩
  have := hw v hv
  simp only [List.contains_iff_mem] at this ⊢
  exact hsub v this

/-- **restores_iff_writes** - the declared set matters only through `writes p ⊆ vs`: `writes p` is the
least set for which a program can be accepted -/
theorem restores_iff_writes (p : Stmt) (vs : List Var) :
    restores p vs = true ↔ (restores p (writes p) = true ∧ ∀ v, v ∈ writes p → v ∈ vs) := by
  constructor
  · intro h
    refine ⟨?_, restores_only_touches p vs h⟩
    simp only [restores, Bool.and_eq_true, List.all_eq_true] at h ⊢
    obtain ⟨⟨⟨_, hn⟩, he⟩, hr⟩ := h
    exact ⟨⟨⟨fun v hv => by simpa using hv, hn⟩, he⟩, hr⟩
  · intro ⟨h, hsub⟩
    exact restores_mono p (writes p) vs hsub h

/-! ### exactness of the checker on a fragment: straight-line save / clobber programs

Straight-line programs over `x = os.environ.get(v)` and `os.environ.pop(v, None)` (no fault point, no restore
statement): here the checker is exact, not only sound - it accepts iff the semantics restores every initial
state (iff nothing is popped).  `checker_incomplete_witness` below shows that exactness does not extend to
an unguarded `os.environ[v] = x` restore. -/

inductive Atom where
  | save (x : Loc) (v : Var)
  | pop (v : Var)

def Atom.stmt : Atom → Stmt
  | .save x v => .save x v
  | .pop v => .pop v

def straight : List Atom → Stmt
  | [] => .skip
  | a :: l => .seq a.stmt (straight l)

def popped : List Atom → List Var
  | [] => []
  | .save _ _ :: l => popped l
  | .pop v :: l => v :: popped l

theorem ana_straight : ∀ (l : List Atom) (a : Abs), a.isNone = [] →
    ∃ b, ana (straight l) a = ⟨some b, none, none⟩ ∧ ∀ w, w ∈ b.dirty ↔ (w ∈ a.dirty ∨ w ∈ popped l) := by
  intro l
  induction l with
  | nil => intro a _; exact ⟨a, rfl, fun w => by simp [popped]⟩
  | cons at0 l ih =>
    intro a ha
    cases at0 with
    | save x v =>
      have hb : (a.bind x v).isNone = [] := by
        simp only [Abs.bind, Abs.forget]; split <;> simp [ha]
      have hd : (a.bind x v).dirty = a.dirty := by
        simp only [Abs.bind, Abs.forget]; split <;> rfl
      obtain ⟨b, hb1, hb2⟩ := ih (a.bind x v) hb
      refine ⟨b, ?_, fun w => ?_⟩
      · simp only [straight, Atom.stmt, ana, onO, hb1, Res.join, joinO]
      · rw [hb2 w, hd]; simp [popped]
    | pop v =>
      have hon : a.origNone v = false := by simp [Abs.origNone, ha]
      have hb : (a.markDirty v).isNone = [] := by
        simp only [Abs.markDirty]; split <;> simp [ha]
      have hd : ∀ w, w ∈ (a.markDirty v).dirty ↔ (w = v ∨ w ∈ a.dirty) := by
        intro w
        simp only [Abs.markDirty]
        split
        · next hc =>
          have hv : v ∈ a.dirty := by simpa using hc
          constructor
          · intro h; exact Or.inr h
          · intro h; cases h with
            | inl h => rw [h]; exact hv
            | inr h => exact h
        · simp
      obtain ⟨b, hb1, hb2⟩ := ih (a.markDirty v) hb
      refine ⟨b, ?_, fun w => ?_⟩
      · simp only [straight, Atom.stmt, ana, hon, onO, Res.join, joinO]
        simp [hb1]
      · rw [hb2 w, hd w]; simp only [popped, List.mem_cons]
        constructor
        · rintro ((h | h) | h)
          · exact Or.inr (Or.inl h)
          · exact Or.inl h
          · exact Or.inr (Or.inr h)
        · rintro (h | h | h)
          · exact Or.inl (Or.inr h)
          · exact Or.inl (Or.inl h)
          · exact Or.inr h

theorem run_straight (o : Oracle) : ∀ (l : List Atom) (s : St),
    (run o (straight l) s).2 = .ok ∧
    ∀ w, (run o (straight l) s).1.env w = if w ∈ popped l then none else s.env w := by
  intro l
  induction l with
  | nil => intro s; exact ⟨rfl, fun w => by simp [popped, straight, run]⟩
  | cons at0 l ih =>
    intro s
    cases at0 with
    | save x v =>
      simp only [straight, Atom.stmt, run, popped]
      exact ih _
    | pop v =>
      simp only [straight, Atom.stmt, run, popped]
      obtain ⟨h1, h2⟩ := ih { s with env := s.env.set v none }
      refine ⟨h1, fun w => ?_⟩
      rw [h2 w]
      by_cases hw : w = v
      · subst hw; simp [Env.set]
      · simp [Env.set, hw]

/-- **restores_exact_straight** - on straight-line save / clobber programs the checker is exact: it
accepts (for the least possible declared set) iff the semantics restores every initial state -/
theorem restores_exact_straight (l : List Atom) :
    restores (straight l) (writes (straight l)) = true ↔ Restoring (straight l) := by
  constructor
  · exact restores_restoring
  · intro h
    have hp : popped l = [] := by
      cases hl : popped l with
      | nil => rfl
      | cons v t =>
        exfalso
        let o : Oracle := ⟨fun _ _ => false, fun _ _ => 0, fun _ _ => .other⟩
        let s : St := ⟨fun _ => some "", fun _ => .other, 0⟩
        have h1 := congrFun (h o s) v
        rw [(run_straight o l s).2 v, hl] at h1
        simp [s] at h1
    obtain ⟨b, hb1, hb2⟩ := ana_straight l Abs.init rfl
    have hd : b.dirty = [] := by
      apply List.eq_nil_iff_forall_not_mem.mpr
      intro w hw
      have := (hb2 w).mp hw
      rw [hp] at this
      simp [Abs.init] at this
    simp only [restores, hb1, cleanO, hd, Bool.and_eq_true, List.all_eq_true]
    refine ⟨⟨⟨fun v hv => by simpa using hv, ?_⟩, ?_⟩, ?_⟩ <;> simp

/-- the boundary of exactness: `x = os.environ.get(v); os.environ.pop(v, None); os.environ[v] = x` restores
every initial state (when `v` was unset the assignment raises, with nothing changed), but the checker
rejects it - it wants the None case handled (`if x is None: pop else: assign`), as the real code does -/
def unguardedRestore : Stmt := .seq (.save "x" "A") (.seq (.pop "A") (.setFrom "A" "x"))

theorem checker_incomplete_witness :
    Restoring unguardedRestore ∧ restores unguardedRestore ["A"] = false := by
  refine ⟨?_, by decide⟩
  intro o s
  funext w
  simp only [unguardedRestore, run, Store.set, Val.ofOpt]
  cases hA : s.env "A" with
  | none =>
    simp only [if_true]
    by_cases hw : w = "A"
    · subst hw; simp [Env.set, hA]
    · simp [Env.set, hw]
  | some t =>
    simp only [if_true]
    by_cases hw : w = "A"
    · subst hw; simp [Env.set, hA]
    · simp [Env.set, hw]

example : restores (straight [.save "x" "A", .save "y" "B"]) [] = true := by decide
example : restores (straight [.save "x" "A", .pop "A"]) ["A"] = false := by decide

/-! ### the guarded idiom restores for EVERY body -/

/-- `x = os.environ.get(v); try: <body> finally: (pop v if x is None else os.environ[v] = x)` -/
def guardIdiom (x : Loc) (v : Var) (b : Stmt) : Stmt :=
  .seq (.save x v) (.tryFinally b (.ifNone x (.pop v) (.setFrom v x)))

theorem guard_finally_restores (o : Oracle) (x : Loc) (v : Var) (b : Stmt)
    (hw : ∀ w, w ∈ writes b → w = v) (hx : x ∉ assigns b) (s1 : St) (h1 : s1.sto x = Val.ofOpt (s1.env v)) :
    (run o (.tryFinally b (.ifNone x (.pop v) (.setFrom v x))) s1).1.env = s1.env := by
  have hsto : (run o b s1).1.sto x = s1.sto x := run_sto_frame o b s1 x hx
  have henv : ∀ w, w ≠ v → (run o b s1).1.env w = s1.env w :=
    fun w hwv => run_env_frame o b s1 w (fun hm => hwv (hw w hm))
  simp only [run]
  generalize run o b s1 = r at hsto henv
  obtain ⟨s', oa⟩ := r
  simp only at hsto henv
  cases hv : s1.env v with
  | none =>
    have hn : s'.sto x = .none := by rw [hsto, h1, hv]; rfl
    simp only [hn, if_true]
    funext w
    by_cases hwv : w = v
    · subst hwv; simp [Env.set, hv]
    · simp [Env.set, hwv, henv w hwv]
  | some t =>
    have hn : s'.sto x = .str t := by rw [hsto, h1, hv]; rfl
    simp only [hn]
    funext w
    by_cases hwv : w = v
    · subst hwv; simp [Env.set, hv]
    · simp [Env.set, hwv, henv w hwv]

/-- **guard_idiom_restoring** - for EVERY body (any faults, branches, loops, returns, nested handlers) that
writes no variable other than `v` and does not rebind `x`, the guarded idiom is restoring: a template theorem
that needs no run of the checker -/
theorem guard_idiom_restoring (x : Loc) (v : Var) (b : Stmt)
    (hw : ∀ w, w ∈ writes b → w = v) (hx : x ∉ assigns b) : Restoring (guardIdiom x v b) := by
  intro o s
  simp only [guardIdiom, run]
  exact guard_finally_restores o x v b hw hx _ (by simp [Store.set])

example : Restoring (guardIdiom "x" "A" (.seq (.fault 1) (.seq (.setExpr "A" 2) (.loop 3 (.seq (.pop "A") .ret))))) :=
  guard_idiom_restoring _ _ _ (by intro w hw; simp [writes] at hw; exact hw) (by simp [assigns])

end PydlVerif.C20
